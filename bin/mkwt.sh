#!/bin/sh
# mkwt.sh <name>: scratch worktree of /repo HEAD under /tmp/wt/<name> with the contract files stripped
set -e
N=$1
mkdir -p /tmp/wt
git -C /repo worktree add -q --detach /tmp/wt/$N HEAD
cd /tmp/wt/$N
git rm -q -r --ignore-unmatch $(git ls-files | grep contracts_verif.go) >/dev/null
git -c user.name=builder -c user.email=b@x commit -q -m "strip contract files (scratch)"
echo /tmp/wt/$N
