#!/bin/bash
export GOVC_EVIDENCE_DIR=/tmp/wt/evidence-scratch
# seed_recheck.sh [seed dirs...]: apply each seeded change to a scratch clone of /repo's HEAD (so /repo stays free), run the
# check of its property against the clone, undo; record the outcome in the seed's meta.json (verif_result)
cd /verif
DIRS="$@"; [ -z "$DIRS" ] && DIRS=$(ls -d /verif/seeded/*/)
R=/tmp/wt/recheck-$$
rm -rf $R; mkdir -p /tmp/wt; git clone -q /repo $R || exit 2
for D in $DIRS; do
  D=${D%/}; PID=$(python3 -c "import json;print(json.load(open('$D/meta.json'))['property'])")
  git -C $R apply $D/patch.diff 2>/dev/null || { echo "$(basename $D): patch does not apply"; continue; }
  /verif/bin/govc check --property $PID --repo $R 2>&1 | cut -c1-400 > $D/check-$PID.out; RC=${PIPESTATUS[0]}
  git -C $R checkout -- . ; git -C $R clean -fdq
  NV=$(grep -c '^VIOLATION' $D/check-$PID.out); NF=$(grep '^VIOLATION' $D/check-$PID.out | grep -vc 'no-failing-input-found')
  python3 - "$D" "$PID" "$RC" "$NV" "$NF" <<'PY'
import json,sys
d,pid,rc,nv,nf=sys.argv[1:]
m=json.load(open(d+'/meta.json'))
m['verif_result']={'check':'govc check --property '+pid,'exit':int(rc),'violation_lines':int(nv),'with_failing_input':int(nf),'detected':int(rc)==1 and int(nv)>0}
json.dump(m,open(d+'/meta.json','w'),indent=1)
PY
  echo "$(basename $D): exit=$RC violations=$NV with_failing_input=$NF"
done
rm -rf $R
