#!/bin/bash
export GOVC_EVIDENCE_DIR=/tmp/wt/evidence-scratch
# seed_recheck.sh [seed dirs...]: apply each seeded change to /repo, run the check of its property, undo; record the outcome
cd /verif
DIRS="$@"; [ -z "$DIRS" ] && DIRS=$(ls -d /verif/seeded/*/)
for D in $DIRS; do
  D=${D%/}; PID=$(python3 -c "import json;print(json.load(open('$D/meta.json'))['property'])")
  git -C /repo status --short | grep -q . && { echo "/repo is dirty, refusing"; exit 2; }
  git -C /repo apply $D/patch.diff || { echo "$D: patch does not apply"; continue; }
  /verif/bin/govc check --property $PID > $D/check-$PID.out 2>&1; RC=$?
  git -C /repo checkout -- .
  NV=$(grep -c '^VIOLATION' $D/check-$PID.out); NF=$(grep '^VIOLATION' $D/check-$PID.out | grep -vc 'no-failing-input-found')
  python3 - "$D" "$PID" "$RC" "$NV" "$NF" <<'PY'
import json,sys
d,pid,rc,nv,nf=sys.argv[1:]
m=json.load(open(d+'/meta.json'))
m['verif_result']={'check':'govc check --property '+pid,'exit':int(rc),'violation_lines':int(nv),'with_failing_input':int(nf),'detected':int(rc)==1 and int(nv)>0}
json.dump(m,open(d+'/meta.json','w'),indent=1)
PY
  echo "$(basename $D): exit=$RC violations=$NV with_failing_input=$NF"
done
