#!/bin/bash
export GOVC_EVIDENCE_DIR=/tmp/wt/evidence-scratch
# seed_eval.sh <agent worktree> <sub (a|b)> <property id> [more property ids to run...]
# 1. confirm the seeded change in a fresh scratch worktree: suite passes with it, demo fails with it, demo passes without it
# 2. copy it to /verif/seeded/<pid>-<sub>/  3. apply to /repo, run the checks, revert
set -u
WT=$1; SUB=$2; PID=$3; shift 3; EXTRA="$@"
SRC=$WT/seed/$SUB
export GOFLAGS=-mod=mod GOPROXY=off GOSUMDB=off GOTOOLCHAIN=local
S=/tmp/wt/confirm-$PID-$SUB
rm -rf $S; git -C /repo worktree prune; git -C /repo worktree add -q --detach $S HEAD || exit 2
DEMO_DIR=$(python3 -c "import json;print(json.load(open('$SRC/meta.json'))['demo_dir'])")
cd $S
echo "== clean tree: demo must pass"
mkdir -p $DEMO_DIR; cp $SRC/demo_test.go $DEMO_DIR/zz_seed_demo_test.go
go test -vet=off -count=1 ./$DEMO_DIR/ 2>&1 | tail -3; CLEAN=${PIPESTATUS[0]}
rm $DEMO_DIR/zz_seed_demo_test.go
echo "== with patch: suite must pass"
git apply $SRC/patch.diff || { echo "PATCH DOES NOT APPLY"; cd /; git -C /repo worktree remove --force $S; exit 3; }
go build ./... && go test -vet=off -count=1 ./... 2>&1 | grep -v "no test files" | grep -v "^ok" ; SUITE=${PIPESTATUS[0]}
echo "== with patch: demo must fail"
cp $SRC/demo_test.go $DEMO_DIR/zz_seed_demo_test.go
go test -vet=off -count=1 ./$DEMO_DIR/ 2>&1 | tail -4; DEMO=${PIPESTATUS[0]}
cd /; git -C /repo worktree remove --force $S
echo "confirm: clean_demo_exit=$CLEAN suite_exit=$SUITE patched_demo_exit=$DEMO"
if [ "$CLEAN" != 0 ] || [ "$SUITE" != 0 ] || [ "$DEMO" = 0 ]; then echo "SEED NOT CONFIRMED"; exit 4; fi
D=/verif/seeded/$PID-$SUB; mkdir -p $D; cp $SRC/patch.diff $SRC/demo_test.go $SRC/meta.json $D/
echo "== applying to /repo and running checks"
git -C /repo apply $SRC/patch.diff || exit 5
for P in $PID $EXTRA; do /verif/bin/govc check --property $P 2>&1 | cut -c1-300 > $D/check-$P.out; echo "check $P exit=${PIPESTATUS[0]}"; tail -4 $D/check-$P.out; done
git -C /repo checkout -- . ; git -C /repo status --short
