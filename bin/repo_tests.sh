#!/bin/sh
# run /repo's own test suite with the verif guard OFF, without touching /repo/go.sum
set -e
D=${1:-/repo}
S=/verif/.scratch/base
mkdir -p $S && cp $D/go.mod $D/go.sum $S/
cd $D && GOFLAGS=-mod=mod GOPROXY=off GOSUMDB=off GOTOOLCHAIN=local go test -modfile=$S/go.mod -vet=off -count=1 -timeout 25m ./... 2>&1 | grep -v "no test files"
