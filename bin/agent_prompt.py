#!/usr/bin/env python3
"""print the prompt for a mutation sub-agent: agent_prompt.py <property id> <worktree>"""
import json, sys
pid, wt = sys.argv[1], sys.argv[2]
p = [json.loads(l) for l in open('/verif/properties.jsonl') if json.loads(l)['id'] == pid][0]
print(f"""You are helping to evaluate a verification effort by producing *seeded defects* for a Go library.

Repository: a scratch git worktree at {wt} (Go module github.com/pip-services3-gox/pip-services3-expressions-gox:
tokenizers, an expression parser/calculator over dynamic Variants, a CSV tokenizer, a Mustache engine). Work ONLY inside
{wt}. Never touch /repo or /verif. The sandbox has no network. Run Go with:
  cd {wt} && GOFLAGS=-mod=mod GOPROXY=off GOSUMDB=off GOTOOLCHAIN=local go test -vet=off -count=1 ./...
(the whole suite takes a few seconds and passes on the clean tree).

Property {pid} - "{p['title']}":
  {p['statement']}
  (Quantifier: {p['quantifier']['text']})
  Files it is anchored in: {', '.join(p['anchors']['files'])}

Task: produce TWO independent changes (call them a and b) to the library's non-test source code, each of which
  1. still compiles,
  2. leaves the ENTIRE existing test suite passing (run it to confirm),
  3. breaks the property above in a way that needs something specific to manifest - an unusual input, a particular
     multi-step sequence of operations, a boundary position, two cooperating edits that each look fine alone - NOT something
     that ordinary use would expose at once, and NOT a change that merely deletes functionality,
  4. looks like a plausible refactoring, optimisation or bug-fix gone slightly wrong (a realistic regression).
The two changes should touch different mechanisms/functions if possible.

For each change X in (a, b) create the directory {wt}/seed/X/ containing:
  - patch.diff  : `git diff` of the change against the clean worktree HEAD (source files only; apply-able with `git apply`)
  - demo_test.go: a Go test (package name and target directory stated in meta.json; it may be an in-package test or live
                  under test/...) that FAILS with the change applied and PASSES on the clean tree
  - meta.json   : {{"property": "{pid}", "summary": "...", "needs_to_manifest": "...", "demo_dir": "<dir relative to repo root where
                  demo_test.go must be placed>", "demo_run": "<go test command, relative to repo root>", "ran": ["commands you ran and outcome"]}}
Procedure for each change: edit the source, run the full suite (must pass), copy the demo into place and run it (must fail), save
patch.diff, then `git checkout -- .` / remove the demo file, run the demo on the clean tree (must pass). Leave the worktree clean
(only the untracked seed/ directory remaining) when done. Do not commit anything.

Reply with a short summary of the two changes (files, what breaks, how it manifests) and confirm the pass/fail results you observed.""")
