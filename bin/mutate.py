#!/usr/bin/env python3
"""Mechanical mutation run (development aid, not part of any registered check): applies one small operator mutation at a time
to a scratch clone of /repo, keeps the mutants that still build and pass the repository's own tests, and runs the checks of the
properties anchored in the mutated file against the clone. Prints one line per surviving mutant: detected by which check, or MISSED.

usage: mutate.py <n mutants> <seed> [file glob ...]
"""
import fnmatch, json, os, random, re, subprocess, sys, shutil

N = int(sys.argv[1]); SEED = int(sys.argv[2]); GLOBS = sys.argv[3:]
R = '/tmp/wt/mutate-%d' % os.getpid()
ENV = dict(os.environ, GOFLAGS='-mod=mod', GOPROXY='off', GOSUMDB='off', GOTOOLCHAIN='local', GOVC_EVIDENCE_DIR='/tmp/wt/evidence-scratch')
OPS = [(r' < ', ' <= '), (r' <= ', ' < '), (r' > ', ' >= '), (r' >= ', ' > '), (r' == ', ' != '), (r' != ', ' == '), (r' && ', ' || '), (r' \|\| ', ' && '),
       (r' \+ 1\b', ' + 2'), (r' - 1\b', ' - 2'), (r'\btrue\b', 'false'), (r'\bfalse\b', 'true')]

props = [json.loads(l) for l in open('/verif/properties.jsonl')]


def anchored(rel):
    out = []
    for p in props:
        if any(fnmatch.fnmatch(rel, g) for g in p['anchors']['files']):
            out.append(p['id'])
    return out


def sh(cmd, **kw):
    return subprocess.run(cmd, shell=True, capture_output=True, text=True, env=ENV, **kw)


shutil.rmtree(R, ignore_errors=True)
sh('git clone -q /repo %s' % R)
files = [f for f in sh('git -C %s ls-files "*.go"' % R).stdout.split() if not f.startswith('test/') and not f.endswith('_test.go') and not f.endswith('contracts_verif.go')]
if GLOBS:
    files = [f for f in files if any(fnmatch.fnmatch(f, g) for g in GLOBS)]
files = [f for f in files if anchored(f)]
rng = random.Random(SEED)
sites = []
for f in files:
    src = open(os.path.join(R, f)).read().split('\n')
    for ln, line in enumerate(src):
        code = line.split('//')[0]
        if not code.strip() or code.strip().startswith(('import', 'package', '"')):
            continue
        for oi, (pat, rep) in enumerate(OPS):
            for m in re.finditer(pat, code):
                if code.count('"') % 2 == 0 and '"' in code[:m.start()] and code[:m.start()].count('"') % 2 == 1:
                    continue        # inside a string literal
                sites.append((f, ln, m.start(), m.end(), oi))
rng.shuffle(sites)
done = 0
light = {'C11': 1, 'C14': 1, 'C20': 1, 'C07': 1, 'C17': 2, 'C13': 2, 'C16': 3, 'C09': 2, 'C06': 3, 'C08': 3, 'C02': 3, 'C04': 3, 'C12': 3, 'C10': 3, 'C15': 4, 'C19': 6, 'C18': 6, 'C05': 6, 'C01': 7, 'C03': 8}
for (f, ln, a, b, oi) in sites:
    if done >= N:
        break
    path = os.path.join(R, f)
    src = open(path).read().split('\n')
    line = src[ln]
    new = line[:a] + OPS[oi][1] + line[b:]
    src[ln] = new
    open(path, 'w').write('\n'.join(src))
    ok = sh('cd %s && go build ./... ' % R).returncode == 0
    if ok:
        t = sh('cd %s && go test -vet=off -count=1 ./... 2>&1 | grep -c "^FAIL\\|^---"' % R)
        ok = t.stdout.strip() == '0'
    if not ok:
        sh('git -C %s checkout -- .' % R)
        continue
    done += 1
    pids = sorted(anchored(f), key=lambda p: light.get(p, 5))[:3]
    verdict = 'MISSED'
    for pid in pids:
        r = sh('/verif/bin/govc check --property %s --repo %s' % (pid, R))
        if r.returncode == 1 and 'VIOLATION' in r.stdout:
            verdict = 'detected by %s' % pid
            break
    print('%s:%d  %r -> %r   [%s]  %s' % (f, ln + 1, line.strip()[:70], new.strip()[:70], ','.join(pids), verdict), flush=True)
    sh('git -C %s checkout -- . && git -C %s clean -fdq' % (R, R))
shutil.rmtree(R, ignore_errors=True)
