"""Evaluation of specification expressions to SMT terms in a given program state."""
from .smt import V, num, sym, and_, or_, not_, imp, ite, eq, INT_RANGES
from .spec import SpecError, resolve_type


class SpecEval:
    def __init__(self, vc, pkg, env, state, old_state, old_env=None, rec_level=0, bound=None, entry_alloc=None):
        self.vc = vc
        self.prog = vc.prog
        self.pkg = pkg
        self.env = env            # name -> V
        self.st = state
        self.old = old_state
        self.old_env = old_env
        self.rec_level = rec_level
        self.bound = set(bound or ())
        self.entry_alloc = entry_alloc
        self.depth = 0
        self.mode = None        # None | 'goal' (skolemize positive foralls) | 'assume' (register them for instantiation)
        self.positive = True
        self.ante = []
        self.skolems = []
        self.guard = 'true'
        self.qvars = {}
        self.hdr = {}

    def sub(self, env=None, state=None, pkg=None):
        e = SpecEval(self.vc, pkg or self.pkg, env if env is not None else self.env, state or self.st, self.old,
                     self.old_env, self.rec_level, self.bound, self.entry_alloc)
        e.depth = self.depth + 1
        e.mode, e.positive, e.ante, e.skolems, e.guard = self.mode, self.positive, list(self.ante), self.skolems, self.guard
        e.qvars = dict(self.qvars)
        e.hdr = self.hdr
        return e

    def nonpos(self, e):
        saved = self.positive
        self.positive = False
        try:
            return self.eval(e)
        finally:
            self.positive = saved

    def err(self, msg):
        raise SpecError(msg)

    # ------------------------------------------------------------------------------
    def eval(self, e):
        k = e[0]
        m = getattr(self, 'e_' + k, None)
        if m is None:
            self.err('cannot evaluate spec node %r' % (e,))
        return m(e)

    def e_inpkg(self, e):
        save = self.pkg
        self.pkg = e[1]
        try:
            return self.eval(e[2])
        finally:
            self.pkg = save

    def e_num(self, e):
        return V(num(e[1]), 'Int', 'int')

    def e_fnum(self, e):
        return V('((_ to_fp 11 53) RNE %s)' % e[1], 'F64', 'float64')

    def e_bool(self, e):
        return V('true' if e[1] else 'false', 'Bool', 'bool')

    def e_str(self, e):
        return V(self.vc.strlit(e[1]), 'Str', 'string')

    def e_nil(self, e):
        return V('0', 'Nil', None)

    def e_id(self, e):
        n = e[1]
        if n in self.env:
            return self.env[n]
        c = self.prog_const(n)
        if c is not None:
            return c
        g = self.pkg + '.' + n
        if g in self.prog.globals and self.st is not None:
            ets = self.prog.globals[g]['elem']
            hn, hs = self.vc.global_heap(g, ets)
            v = V(self.st.get(hn, hs), hs, ets)
            self.vc.range_assume(v)
            return v
        self.err('unknown identifier %r' % n)

    def prog_const(self, n, pkg=None):
        consts = getattr(self.prog, 'consts', {})
        key = (pkg or self.pkg) + '.' + n
        if key in consts:
            c = consts[key]
            return self.const_value(c)
        return None

    def const_value(self, c):
        ts = c['t']
        s = self.vc.sort_of(ts)
        if s == 'Int':
            return V(num(int(c['v'])), 'Int', ts)
        if s == 'Bool':
            return V('true' if c['v'] else 'false', 'Bool', ts)
        if s == 'Str':
            return V(self.vc.strlit(c['v']), 'Str', ts)
        self.err('constant of unsupported sort')

    def e_old(self, e):
        if self.old is None:
            self.err('old() not allowed here')
        env = dict(self.old_env if self.old_env is not None else self.env)
        env.update(self.qvars)
        ev = SpecEval(self.vc, self.pkg, env, self.old, self.old,
                      self.old_env, self.rec_level, self.bound, self.entry_alloc)
        ev.qvars = dict(self.qvars)
        return ev.nonpos(e[1])

    def coerce_pair(self, a, b):
        """nil adapts to the other side's sort"""
        if a.sort == 'Nil' and b.sort != 'Nil':
            a = self.nil_of(b)
        if b.sort == 'Nil' and a.sort != 'Nil':
            b = self.nil_of(a)
        if a.sort == 'Nil' and b.sort == 'Nil':
            a = V('0', 'Int')
            b = V('0', 'Int')
        return a, b

    def nil_of(self, other):
        if other.sort == 'Int':
            return V('0', 'Int', other.ts)
        if other.sort == 'Any':
            return V('a.nil', 'Any', other.ts)
        if other.sort == 'Slice':
            return V('(mkslice 0 0 0 0)', 'Slice', other.ts)
        self.err('nil compared with sort ' + other.sort)

    def e_unop(self, e):
        x = self.nonpos(e[2])
        if e[1] == '!':
            return V(not_(x.term), 'Bool', 'bool')
        if e[1] == '-':
            if x.sort in ('F64', 'F32'):
                return V('(fp.neg %s)' % x.term, x.sort, x.ts)
            return V('(- %s)' % x.term, 'Int', x.ts)
        self.err('unop ' + e[1])

    def e_binop(self, e):
        op = e[1]
        if op in ('&&', '||', '==>', '<==>'):
            if op == '&&':
                a = self.eval(e[2])
                b = self.eval(e[3])
            elif op == '==>':
                a = self.nonpos(e[2])
                self.ante.append(a.term)
                try:
                    b = self.eval(e[3])
                finally:
                    self.ante.pop()
            else:
                a = self.nonpos(e[2])
                b = self.nonpos(e[3])
            if a.sort != 'Bool' or b.sort != 'Bool':
                self.err('boolean operator %s on non-boolean in %r' % (op, e))
            if op == '&&':
                return V(and_(a.term, b.term), 'Bool', 'bool')
            if op == '||':
                return V(or_(a.term, b.term), 'Bool', 'bool')
            if op == '==>':
                return V(imp(a.term, b.term), 'Bool', 'bool')
            return V('(= %s %s)' % (a.term, b.term), 'Bool', 'bool')
        a = self.nonpos(e[2])
        b = self.nonpos(e[3])
        a, b = self.coerce_pair(a, b)
        if op in ('==', '!='):
            if a.sort != b.sort:
                self.err('comparison of different sorts %s / %s in %r' % (a.sort, b.sort, e))
            if a.sort in ('F64', 'F32'):
                t = '(fp.eq %s %s)' % (a.term, b.term)
            elif a.sort == 'Str' and self.vc.strlits.get('') in (a.term, b.term) and a.term != b.term:
                # a string is empty iff it has no runes
                t = '(= (gs.rlen %s) 0)' % (b.term if a.term == self.vc.strlits.get('') else a.term)
            elif a.sort == 'Slice':
                # slices are compared as values (header equality); only nil comparisons are Go-legal
                t = '(= %s %s)' % (a.term, b.term)
            else:
                t = eq(a.term, b.term)
            return V(t if op == '==' else not_(t), 'Bool', 'bool')
        if op in ('<', '<=', '>', '>='):
            if a.sort == 'Int' and b.sort == 'Int':
                return V('(%s %s %s)' % (op, a.term, b.term), 'Bool', 'bool')
            if a.sort in ('F64', 'F32') and a.sort == b.sort:
                f = {'<': 'fp.lt', '<=': 'fp.leq', '>': 'fp.gt', '>=': 'fp.geq'}[op]
                return V('(%s %s %s)' % (f, a.term, b.term), 'Bool', 'bool')
            if a.sort == 'Str' and b.sort == 'Str':
                lt = self.vc.ufun('gs.lt', ['Str', 'Str'], 'Bool')
                x, y = a.term, b.term
                if op in ('>', '>='):
                    x, y = y, x
                t = '(%s %s %s)' % (lt, x, y)
                if op in ('<=', '>='):
                    t = or_(t, eq(x, y))
                return V(t, 'Bool', 'bool')
            self.err('ordering on sorts %s/%s' % (a.sort, b.sort))
        if op in ('+', '-', '*', '/', '%'):
            if a.sort == 'Int' and b.sort == 'Int':
                if op in ('/', '%'):
                    from .exec import is_lit
                    if is_lit(b.term):
                        return V('(%s %s %s)' % ('go.quo' if op == '/' else 'go.rem', a.term, b.term), 'Int', a.ts)
                    f = self.vc.ufun('ext.go.quo' if op == '/' else 'ext.go.rem', ['Int', 'Int'], 'Int')
                    return V('(%s %s %s)' % (f, a.term, b.term), 'Int', a.ts)
                if op == '*':
                    from .exec import is_lit
                    if not is_lit(a.term) and not is_lit(b.term):
                        return V('(%s %s %s)' % (self.vc.ufun('ext.go.mul', ['Int', 'Int'], 'Int'), a.term, b.term), 'Int', a.ts or b.ts)
                return V('(%s %s %s)' % (op, a.term, b.term), 'Int', a.ts or b.ts)
            if a.sort in ('F64', 'F32') and a.sort == b.sort:
                if op in ('+', '-', '*', '/'):
                    f = self.vc.ufun('ext.fp.%s.%s' % ({'+': 'add', '-': 'sub', '*': 'mul', '/': 'div'}[op], a.sort), [a.sort, a.sort], a.sort)
                    return V('(%s %s %s)' % (f, a.term, b.term), a.sort, a.ts)
            if a.sort == 'Str' and b.sort == 'Str' and op == '+':
                from .models import str_concat
                if self.mentions_bound(a.term) or self.mentions_bound(b.term):
                    return V('(%s %s %s)' % (self.vc.ufun('gs.concat', ['Str', 'Str'], 'Str'), a.term, b.term), 'Str', 'string')
                return V(str_concat(self.vc, a.term, b.term), 'Str', 'string')
            self.err('arithmetic %s on sorts %s/%s' % (op, a.sort, b.sort))
        self.err('binop ' + op)

    def e_ite(self, e):
        c = self.nonpos(e[1])
        a = self.nonpos(e[2])
        b = self.nonpos(e[3])
        a, b = self.coerce_pair(a, b)
        if a.sort != b.sort:
            self.err('branches of ?: have different sorts %s/%s in %r' % (a.sort, b.sort, e))
        return V(ite(c.term, a.term, b.term), a.sort, a.ts or b.ts)

    def quant(self, e, q):
        vs = e[1]
        if q == 'forall' and self.positive and self.mode == 'goal':
            # goal position: replace the bound variables by fresh constants (skolemization of the negated goal)
            env = dict(self.env)
            for (n, t) in vs:
                ts = resolve_type(self.prog, self.pkg, t)
                s = self.vc.sort_of(ts)
                c = self.vc.declare('sk$' + n, s)
                v = V(c, s, ts)
                self.vc.range_assume(v)
                env[n] = v
                self.skolems.append(v)
            ev = self.sub(env)
            for (n, t) in vs:
                ev.qvars[n] = env[n]
            return ev.eval(e[2])
        if q == 'forall' and self.positive and self.mode == 'assume':
            qvars = []
            for (n, t) in vs:
                ts = resolve_type(self.prog, self.pkg, t)
                qvars.append((n, self.vc.sort_of(ts), ts))
            self.vc.register_qa({'vars': qvars, 'body': e[2], 'pkg': self.pkg, 'env': dict(self.env),
                                 # (snapshots: the executor updates its state object in place, and instances are built later)
                                 'st': self.st.copy() if self.st is not None else None,
                                 'old': self.old.copy() if self.old is not None else None, 'old_env': self.old_env, 'ante': list(self.ante), 'guard': self.guard, 'qvars': dict(self.qvars),
                                 'rec_level': self.rec_level})
            named_qa = True
        else:
            named_qa = False
        if False:
            pass
        env = dict(self.env)
        decl = []
        ranges = []
        names = []
        for (n, t) in vs:
            ts = resolve_type(self.prog, self.pkg, t)
            s = self.vc.sort_of(ts)
            bn = sym('q$' + n + '$' + str(self.depth))
            env[n] = V(bn, s, ts)
            decl.append('(%s %s)' % (bn, self.vc.ssort(s)))
            names.append(bn)
        ev = self.sub(env)
        ev.bound = self.bound | set(names)
        ev.positive = False     # no skolemization / instantiation registration under a kept binder
        for (n, t) in vs:
            ev.qvars[n] = env[n]
        body = ev.eval(e[2])
        if body.sort != 'Bool':
            self.err('quantifier body is not boolean')
        qt = '(%s (%s) %s)' % (q, ' '.join(decl), body.term)
        if named_qa and not self.mentions_bound(qt):
            # a positive assumed universal clause: named, so that the instantiate-only variant of a query can drop it
            qt = self.vc.define_quant(qt)
        return V(qt, 'Bool', 'bool')

    def e_forall(self, e):
        return self.quant(e, 'forall')

    def e_exists(self, e):
        return self.quant(e, 'exists')

    # ---- heap access ---------------------------------------------------------------------
    def find_field(self, sts, fname):
        """resolve field fname in struct type sts, following embedded fields; returns path [(stype, fname, ftype)]"""
        fields = self.prog.struct_fields(sts)
        for f in fields:
            if f['name'] == fname:
                return [(sts, fname, f['type'])]
        for f in fields:
            if f['embedded']:
                ft = f['type']
                base = ft[1:] if ft.startswith('*') else ft
                if self.prog.under(base)['k'] == 'struct':
                    p = self.find_field(base, fname)
                    if p:
                        return [(sts, f['name'], ft)] + p
        return None

    def e_field(self, e):
        # pkg-qualified constant?
        if e[1][0] == 'id' and e[1][1] not in self.env:
            for full in self.pkg_candidates(e[1][1]):
                c = self.prog_const(e[2], full)
                if c is not None:
                    return c
                g = full + '.' + e[2]
                if g in self.prog.globals and self.st is not None:
                    # a package-level variable of another package
                    ets = self.prog.globals[g]['elem']
                    hn, hs = self.vc.global_heap(g, ets)
                    v = V(self.st.get(hn, hs), hs, ets)
                    self.vc.range_assume(v)
                    return v
        b = self.eval(e[1])
        if self.st is None:
            self.err('heap access %r not allowed in a rec function body (pass values instead)' % (e,))
        if b.ts is None:
            self.err('field access on untyped value in %r' % (e,))
        ts = b.ts
        if ts.startswith('*'):
            sts = ts[1:]
        else:
            self.err('field access on non-pointer type %s in %r' % (ts, e))
        path = self.find_field(sts, e[2])
        if not path:
            self.err('no field %s in %s' % (e[2], sts))
        ref = b.term
        val = None
        for (st_, fn_, ft_) in path:
            hn, hs = self.vc.field_heap(st_, fn_, ft_)
            t = '(select %s %s)' % (self.st.get(hn, hs), ref)
            val = V(t, self.vc.sort_of(ft_), ft_)
            if not self.mentions_bound(t):
                val = V(self.vc.define('sp$' + fn_, val.sort, t), val.sort, ft_)
                self.vc.range_assume(val)
                # no dangling references: what memory holds is allocated
                if self.st.alloc is not None:
                    if val.sort == 'Slice':
                        self.vc.assume('(< (s.arr %s) %s)' % (val.term, self.st.alloc))
                    elif val.sort == 'Int' and self.prog.types.get(ft_) and self.prog.under(ft_)['k'] in ('ptr', 'map'):
                        self.vc.assume('(< %s %s)' % (val.term, self.st.alloc))
            ref = val.term
        return val

    def pkg_candidates(self, short):
        out = []
        for p in getattr(self.prog, 'pkgs', []):
            if p.rsplit('/', 1)[-1] == short:
                out.append(p)
        return out

    def e_index(self, e):
        b = self.nonpos(e[1])
        i = self.nonpos(e[2])
        # ground index terms of specifications are candidates for instantiating assumed universal clauses
        if i.sort == 'Int' and not self.mentions_bound(i.term) and not i.term.lstrip('(- ').rstrip(')').isdigit():
            if ('Int', i.term) not in self.vc.inst_terms:
                self.vc.inst_terms.append(('Int', i.term))
        if b.sort == 'Slice':
            if self.st is None:
                self.err('slice indexing in rec body')
            ets = self.prog.under(b.ts)['elem']
            es = self.vc.sort_of(ets)
            hn, hs = self.vc.elem_heap(es)
            return V('(select (select %s (s.arr %s)) (+ (s.off %s) %s))' % (self.st.get(hn, hs), b.term, b.term, i.term), es, ets)
        if b.sort.startswith('Seq:'):
            es = b.sort[4:]
            ets = b.ts[4:-1] if b.ts and b.ts.startswith('seq[') else None
            return V('(select (sq.a_%s %s) (+ (sq.o_%s %s) %s))' % (es, b.term, es, b.term, i.term), es, ets)
        if b.sort == 'Str':
            return V('(gs.at %s %s)' % (b.term, i.term), 'Int', 'int32')
        if b.sort.startswith('Arr:'):
            return V('(select %s %s)' % (b.term, i.term), b.sort[4:], None)
        self.err('indexing sort ' + b.sort)

    def e_assert(self, e):
        x = self.eval(e[1])
        ts = resolve_type(self.prog, self.pkg, e[2])
        return self.vc_unbox(x, ts)

    def vc_unbox(self, x, ts):
        from .exec import unbox
        return unbox(self.vc, x, ts)

    # ---- calls ---------------------------------------------------------------------------
    def e_call(self, e):
        name, args = e[1], e[2]
        b = getattr(self, 'b_' + name, None)
        if b is not None:
            return b(args)
        sd = self.vc.cs.specs.get(name)
        if sd is None:
            self.err('unknown spec function %r' % name)
        if len(args) != len(sd.params):
            self.err('%s expects %d arguments' % (name, len(sd.params)))
        argvs = []
        for a, (pn, pt) in zip(args, sd.params):
            v = self.nonpos(a)
            pts = resolve_type(self.prog, sd.pkg, pt)
            ps = self.vc.sort_of(pts)
            if v.sort == 'Nil':
                v = self.nil_of(V('', ps, pts))
            if v.sort != ps and ps == 'Any' and v.ts is not None and v.sort != 'Seq:Any':
                # a concrete value where an interface is expected (an implementation checked against its
                # interface contract names itself `self`): the interface value holding it
                from .exec import box
                v = box(self.vc, v)
            if v.sort != ps:
                self.err('argument %s of %s: sort %s, expected %s' % (pn, name, v.sort, ps))
            argvs.append(V(v.term, ps, pts))
        if sd.kind in ('spec', 'pred'):
            env = {pn: av for (pn, pt), av in zip(sd.params, argvs)}
            ev = self.sub(env, pkg=sd.pkg)
            r = ev.eval(sd.body)
            rts = resolve_type(self.prog, sd.pkg, sd.ret)
            if r.sort == 'Nil':
                r = self.nil_of(V('', self.vc.sort_of(rts), rts))
            return V(r.term, r.sort, rts)
        # rec: uninterpreted application + instance for fuel unfolding
        rts = resolve_type(self.prog, sd.pkg, sd.ret)
        rs = self.vc.sort_of(rts)
        if sd.kind == 'ufun':
            f = self.vc.ufun('ghost.' + name, [a.sort for a in argvs], rs)
            return V('(%s %s)' % (f, ' '.join(a.term for a in argvs)) if argvs else f, rs, rts)
        f = self.vc.ufun('rec.' + name, [a.sort for a in argvs], rs)
        terms = tuple(a.term for a in argvs)
        app = '(%s %s)' % (f, ' '.join(terms)) if terms else f
        ground = not any(self.mentions_bound(t) for t in terms)
        if ground:
            key = (name, terms)
            if key not in self.vc.rec_insts:
                self.vc.rec_insts[key] = (self.rec_level, argvs)
        return V(app, rs, rts)

    def mentions_bound(self, t):
        for b in self.bound:
            if b in t:
                return True
        return False

    def b_old(self, args):
        return self.e_old(('old', args[0]))

    def b_len(self, args):
        x = self.eval(args[0])
        if x.sort == 'Slice':
            return V('(s.len %s)' % x.term, 'Int', 'int')
        if x.sort.startswith('Seq:'):
            return V('(sq.n_%s %s)' % (x.sort[4:], x.term), 'Int', 'int')
        if x.sort == 'Str':
            return V('(gs.blen %s)' % x.term, 'Int', 'int')
        self.err('len of sort ' + x.sort)

    def b_cap(self, args):
        x = self.eval(args[0])
        return V('(s.cap %s)' % x.term, 'Int', 'int')

    def b_rlen(self, args):
        x = self.eval(args[0])
        return V('(gs.rlen %s)' % x.term, 'Int', 'int')

    def b_seq(self, args):
        x = self.eval(args[0])
        if x.sort != 'Slice':
            self.err('seq() of non-slice')
        ets = self.prog.under(x.ts)['elem']
        es = self.vc.sort_of(ets)
        hn, hs = self.vc.elem_heap(es)
        self.vc.need_seq(es)
        t = '(mkseq_%s (select %s (s.arr %s)) (s.off %s) (s.len %s))' % (es, self.st.get(hn, hs), x.term, x.term, x.term)
        if not self.mentions_bound(t):
            t = self.vc.define('sp$seq', 'Seq:' + es, t)
        return V(t, 'Seq:' + es, 'seq[' + ets + ']')

    def b_heapof(self, args):
        """heapof(T, f): the current field map of field f of struct type T as a value (sort Array Int <field sort>)"""
        tn = None
        if args[0][0] == 'id':
            tn = args[0][1]
        elif args[0][0] == 'field' and args[0][1][0] == 'id':
            tn = args[0][1][1] + '.' + args[0][2]
        if tn is None or args[1][0] != 'id':
            self.err('heapof(Type, field) expects identifiers')
        sts = resolve_type(self.prog, self.pkg, ('name', tn))
        path = self.find_field(sts, args[1][1])
        if not path or len(path) != 1:
            self.err('heapof: no direct field %s in %s' % (args[1][1], sts))
        st_, fn_, ft_ = path[0]
        if self.st is None:
            self.err('heapof in rec body')
        hn, hs = self.vc.field_heap(st_, fn_, ft_)
        return V(self.st.get(hn, hs), hs, 'fmap[' + ft_ + ']')

    def b_elems(self, args):
        """elems(s): the whole backing array of slice s as a value (no quantifier needed to say it is unchanged)"""
        x = self.eval(args[0])
        if x.sort != 'Slice' or self.st is None:
            self.err('elems() of non-slice')
        ets = self.prog.under(x.ts)['elem']
        es = self.vc.sort_of(ets)
        hn, hs = self.vc.elem_heap(es)
        return V('(select %s (s.arr %s))' % (self.st.get(hn, hs), x.term), 'Arr:' + es, None)

    def b_arr(self, args):
        x = self.eval(args[0])
        return V('(s.arr %s)' % x.term, 'Int', 'int')

    def _map_heaps(self, m):
        if self.st is None or m.ts is None or self.prog.under(m.ts)['k'] != 'map':
            self.err('not a map')
        from .vcgen import san
        xtd = self.prog.under(m.ts)
        ks, vs = self.vc.sort_of(xtd['key']), self.vc.sort_of(xtd['elem'])
        hn = 'M.%s.%s' % (san(ks), san(vs))
        self.vc.heap_sorts[hn + '.has'] = 'Arr:Map:%s>Bool' % ks
        self.vc.heap_sorts[hn + '.val'] = 'Arr:Map:%s>%s' % (ks, vs)
        return xtd, ks, vs, hn

    def _key_term(self, ks, k):
        if not self.mentions_bound(k.term) and (ks, k.term) not in self.vc.inst_terms:
            self.vc.inst_terms.append((ks, k.term))

    def b_haskey(self, args):
        """haskey(m, k): the map m holds an entry for key k"""
        m, k = self.eval(args[0]), self.eval(args[1])
        xtd, ks, vs, hn = self._map_heaps(m)
        self._key_term(ks, k)
        return V('(select (select %s %s) %s)' % (self.st.get(hn + '.has', 'Arr:Map:%s>Bool' % ks), m.term, k.term), 'Bool', 'bool')

    def b_mapval(self, args):
        """mapval(m, k): the value m holds for key k (meaningful where haskey(m, k))"""
        m, k = self.eval(args[0]), self.eval(args[1])
        xtd, ks, vs, hn = self._map_heaps(m)
        self._key_term(ks, k)
        return V('(select (select %s %s) %s)' % (self.st.get(hn + '.val', 'Arr:Map:%s>%s' % (ks, vs)), m.term, k.term), vs, xtd['elem'])

    def b_visited(self, args):
        """visited(m, k): the range statement over map m (the latest one executed) has already produced key k"""
        m, k = self.eval(args[0]), self.eval(args[1])
        xtd, ks, vs, hn = self._map_heaps(m)
        its = self.vc.__dict__.get('mapiters', {})
        if m.term not in its:
            self.err('visited(m, k): no range statement over this map has been executed')
        itref, gn, gs = its[m.term]
        self._key_term(ks, k)
        return V('(select (select %s %s) %s)' % (self.st.get(gn, gs), itref, k.term), 'Bool', 'bool')

    def b_off(self, args):
        """off(s): the offset of slice s in its backing array (with arr(s): where the slice starts)"""
        x = self.eval(args[0])
        return V('(s.off %s)' % x.term, 'Int', 'int')

    def b_min(self, args):
        a, b = self.eval(args[0]), self.eval(args[1])
        return V('(imin %s %s)' % (a.term, b.term), 'Int', a.ts)

    def b_max(self, args):
        a, b = self.eval(args[0]), self.eval(args[1])
        return V('(imax %s %s)' % (a.term, b.term), 'Int', a.ts)

    def b_fresh(self, args):
        x = self.eval(args[0])
        if self.old is None:
            self.err('fresh() needs an old state')
        t = x.term
        if x.sort == 'Slice':
            t = '(s.arr %s)' % t
        return V('(and (>= %s %s) (< %s %s))' % (t, self.old.alloc, t, self.st.alloc), 'Bool', 'bool')

    def b_allocated(self, args):
        x = self.eval(args[0])
        t = x.term
        if x.sort == 'Slice':
            t = '(s.arr %s)' % t
        return V('(< %s %s)' % (t, self.st.alloc), 'Bool', 'bool')

    def b_scalar(self, args):
        x = self.eval(args[0])
        return V('(scalar %s)' % x.term, 'Bool', 'bool')

    def b_typeof(self, args):
        x = self.eval(args[0])
        return V('(a.tid %s)' % x.term, 'Int', 'int')

    def b_typeid(self, args):
        if args[0][0] == 'str':
            p = __import__('govc.spec', fromlist=['Parser']).Parser(args[0][1])
            ts = resolve_type(self.prog, self.pkg, p.parse_type())
        else:
            self.err('typeid("T") expects a type in quotes')
        return V(str(self.vc.tid(ts)), 'Int', 'int')

    def b_builder(self, args):
        """builder(b): the string accumulated so far in the strings.Builder b (a local variable)"""
        x = self.eval(args[0])
        if self.st is None:
            self.err('builder() in rec body')
        self.vc.heap_sorts['B.builder'] = 'Arr:Str'
        return V(self.vc.define('sp$bld', 'Str', '(select %s %s)' % (self.st.get('B.builder', 'Arr:Str'), x.term)), 'Str', 'string')

    def b_fixrune(self, args):
        x = self.eval(args[0])
        return V('(fixrune %s)' % x.term, 'Int', 'int32')

    def b_atheader(self, args):
        """atheader(n, e): the value of e in the state at the header of loop n at the start of the current
        (for a postcondition: the last) iteration"""
        if args[0][0] == 'num' and args[0][1] not in self.hdr and self.mode == 'assume' and self.old is not None:
            # the postcondition of a callee, assumed at a call site: the callee's loop-header state is not visible
            # here, so the value is some unknown of the same sort (the same one for every mention at this call)
            v = self.nonpos(args[1])
            cache = self.vc.__dict__.setdefault('_atheader_unknowns', {})
            key = (id(self.st), repr(args))
            if key not in cache:
                cache[key] = self.vc.declare('atheader$u', v.sort)
            return V(cache[key], v.sort, v.ts)
        if args[0][0] != 'num' or args[0][1] not in self.hdr:
            self.err('atheader(n, e): unknown loop %r' % (args[0],))
        envh, sth = self.hdr[args[0][1]]
        env = dict(envh)
        env.update(self.qvars)
        ev = SpecEval(self.vc, self.pkg, env, sth, self.old, self.old_env, self.rec_level, self.bound, self.entry_alloc)
        ev.qvars = dict(self.qvars)
        ev.hdr = self.hdr
        return ev.nonpos(args[1])

    def b_isslice(self, args):
        x = self.eval(args[0])
        return V('((_ is a.slice) %s)' % x.term, 'Bool', 'bool')

    def b_zerotime(self, args):
        return V(self.vc.zero_of_sort('Time'), 'Time', 'time.Time')

    def b_isnil(self, args):
        x = self.eval(args[0])
        return V(eq(x.term, self.nil_of(x).term), 'Bool', 'bool')

    def b_goeq(self, args):
        """Go's == on interface values (same dynamic type and equal payload; floats by IEEE equality)"""
        from .exec import Exec
        a, b = self.eval(args[0]), self.eval(args[1])
        a, b = self.coerce_pair(a, b)
        if a.sort != 'Any' or b.sort != 'Any':
            self.err('goeq expects interface values')
        return V(Exec.any_eq(None, a.term, b.term), 'Bool', 'bool')

    def b_f32(self, args):
        x = self.eval(args[0])
        if x.sort == 'Int':
            from .models import i2f_term
            return V(i2f_term(self.vc, x.term, 'F32'), 'F32', 'float32')
        if x.sort == 'F64':
            return V('((_ to_fp 8 24) RNE %s)' % x.term, 'F32', 'float32')
        if x.sort == 'F32':
            return V(x.term, 'F32', 'float32')
        self.err('f32 of sort ' + x.sort)

    def b_f64(self, args):
        x = self.eval(args[0])
        if x.sort == 'Int':
            from .models import i2f_term
            return V(i2f_term(self.vc, x.term, 'F64'), 'F64', 'float64')
        if x.sort == 'F32':
            return V('((_ to_fp 11 53) RNE %s)' % x.term, 'F64', 'float64')
        if x.sort == 'F64':
            return V(x.term, 'F64', 'float64')
        self.err('f64 of sort ' + x.sort)

    def b_trunc(self, args):
        x = self.eval(args[0])
        return V('(fp.roundToIntegral RTZ %s)' % x.term, x.sort, x.ts)

    def b_toint(self, args):
        from .models import f2i_term
        x = self.eval(args[0])
        return V(f2i_term(self.vc, x.term, x.sort, 'int'), 'Int', 'int')

    def b_deref(self, args):
        """deref(p): the value a pointer to a scalar cell points to (pointers to struct fields are not expressible)"""
        from .vcgen import Loc
        x = self.eval(args[0])
        if self.st is None or x.ts is None or self.prog.types.get(x.ts, {}).get('k') != 'ptr':
            self.err('deref of a non-pointer')
        ets = self.prog.td(x.ts)['elem']
        if self.prog.under(ets)['k'] == 'struct':
            self.err('deref of a struct pointer: use field access')
        return self.vc.load(self.st, Loc('cell', ets, ref=x.term))

    def b_initrun(self, args):
        """initrun(): this package's initialiser has already run (go/ssa's init$guard)"""
        g = self.pkg + '.init$guard'
        if g not in self.prog.globals or self.st is None:
            self.err('initrun(): no init guard for package ' + self.pkg)
        hn, hs = self.vc.global_heap(g, self.prog.globals[g]['elem'])
        return V(self.st.get(hn, hs), 'Bool', 'bool')

    def b_ffloor(self, args):
        x = self.eval(args[0])
        return V('(fp.roundToIntegral RTN %s)' % x.term, x.sort, x.ts)

    def b_fceil(self, args):
        x = self.eval(args[0])
        return V('(fp.roundToIntegral RTP %s)' % x.term, x.sort, x.ts)

    def b_fround(self, args):
        x = self.eval(args[0])
        return V('(fp.roundToIntegral RNA %s)' % x.term, x.sort, x.ts)

    def b_fabs(self, args):
        x = self.eval(args[0])
        return V('(fp.abs %s)' % x.term, x.sort, x.ts)

    def b_isnan(self, args):
        x = self.eval(args[0])
        return V('(fp.isNaN %s)' % x.term, 'Bool', 'bool')

    def b_ext(self, args):
        """ext("name", "type", args...): the uninterpreted function that models dependency function `name`"""
        if args[0][0] != 'str' or args[1][0] != 'str':
            self.err('ext("name", "result type", args...)')
        from .spec import Parser
        rts = resolve_type(self.prog, self.pkg, Parser(args[1][1]).parse_type())
        rs = self.vc.sort_of(rts)
        avs = [self.eval(a) for a in args[2:]]
        f = self.vc.ufun('ext.' + args[0][1], [a.sort for a in avs], rs)
        t = '(%s %s)' % (f, ' '.join(a.term for a in avs)) if avs else f
        return V(t, rs, rts)

    def b_unbox(self, args):
        self.err('use x.(T)')

    def retag(self, args, ts):
        x = self.eval(args[0])
        if x.sort != self.vc.sort_of(ts):
            self.err('cast of sort %s to %s' % (x.sort, ts))
        return V(x.term, x.sort, ts)

    def b_asint(self, args):
        return self.retag(args, 'int')

    def b_asint64(self, args):
        return self.retag(args, 'int64')

    def b_asdur(self, args):
        return self.retag(args, 'time.Duration')

    def b_asrune(self, args):
        return self.retag(args, 'int32')

    def b_wrap64(self, args):
        x = self.eval(args[0])
        return V('(wrap64 %s)' % x.term, 'Int', 'int64')

    def b_wrap32(self, args):
        x = self.eval(args[0])
        return V('(wrap32 %s)' % x.term, 'Int', 'int32')

    def b_box(self, args):
        """box(x) : the interface value Go builds from x (static type of x)"""
        from .exec import box
        x = self.eval(args[0])
        return box(self.vc, x)
