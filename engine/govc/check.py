"""`govc check --property Cxx`: decide one property on /repo's current working tree."""
import hashlib
import json
import os
import re
import sys
import time
from concurrent.futures import ThreadPoolExecutor

from . import driver, smt, replay as replay_mod
from .vcgen import VC, Unsupported, ContractError, short_fn
from .spec import SpecError
from .exec import verify_function

VERIF = driver.VERIF


def load_known_findings():
    """known_findings.txt: lines `open: property=Cxx obligation=<name> :: <what fails>` and
    `fixed: property=Cxx <commit> <what failed>` (fixed entries suppress nothing)"""
    path = os.path.join(VERIF, 'known_findings.txt')
    opens = []
    if os.path.exists(path):
        for l in open(path):
            l = l.strip()
            m = re.match(r'open:\s+property=(\S+)\s+obligation=(.*?)\s+::\s+(.*)$', l)
            if m:
                opens.append({'property': m.group(1), 'obligation': m.group(2), 'what': m.group(3)})
    return opens


def load_ledger():
    path = os.path.join(VERIF, 'ledger.json')
    if os.path.exists(path):
        return json.load(open(path))
    return {'functions': {}}


def clause_tags(fc):
    tags = set(fc.tags)
    for cl in fc.requires + fc.ensures:
        tags.update(cl.tags)
    for lc in fc.loops.values():
        for cl in lc.invariants:
            tags.update(cl.tags)
    return tags


def anchor_files(pid):
    """the files a property is anchored in (properties.jsonl), as glob patterns relative to the repository root"""
    try:
        for l in open(os.path.join(VERIF, 'properties.jsonl')):
            d = json.loads(l)
            if d.get('id') == pid:
                return list(d.get('anchors', {}).get('files', []))
    except OSError:
        pass
    return []


def roots_for(cs, pid, prog=None, repo=None):
    """where the closure of a property starts: every function with a clause tagged with the property, and every function
    under contract that is defined in one of the files the property is anchored in (so that a contract written for another
    property still guards this one where the statement's own files are concerned)"""
    import fnmatch
    out = set()
    for key, fc in cs.funcs.items():
        if pid in clause_tags(fc) and not fc.trusted:
            out.add(key)
    pats = anchor_files(pid)
    if prog is not None and pats:
        root = os.path.abspath(repo or driver.REPO).rstrip('/') + '/'
        for key, fc in cs.funcs.items():
            if fc.trusted or getattr(fc, 'inline', False) or not isinstance(key, str) or key not in prog.funcs:
                continue        # (an `inline` contract only says: expand the body at call sites)
            fpath = prog.funcs[key].file or ''
            rel = fpath[len(root):] if fpath.startswith(root) else fpath
            if any(fnmatch.fnmatch(rel, pt) for pt in pats):
                out.add(key)
    return sorted(out)


def obligation_relevant(o, pid, in_closure_only):
    return True


class Checker:
    def __init__(self, pid, tier, repo):
        self.pid = pid
        self.tier = tier
        self.repo = repo
        self.t0 = time.time()
        self.timeout = 10 if tier == 'quick' else 30
        if os.environ.get('GOVC_TIMEOUT'):
            self.timeout = int(os.environ['GOVC_TIMEOUT'])      # (for testing the retry path)
        self.seed = int(os.environ.get('VERIF_SEED', '0') or 0)

    def run(self):
        wd = driver.Workdir()
        try:
            return self._run(wd)
        finally:
            wd.cleanup()

    def _run(self, wd):
        pid = self.pid
        try:
            prog, cs = driver.load(self.repo, wd.path)
        except SpecError as e:
            print('CONTRACT-ERROR: %s' % e)
            return 2
        except RuntimeError as e:
            print('BUILD-ERROR: %s' % e)
            return 2
        self.prog, self.cs = prog, cs
        self.bounded = []
        self.bounded_replay = {}
        roots = roots_for(cs, pid, prog, self.repo)
        if not roots:
            print('CONTRACT-ERROR: no function contract carries property %s' % pid)
            return 2
        # closure over the contracts that are assumed at call sites
        vcs = {}
        errors = []
        todo = list(roots)
        while todo:
            fn = todo.pop()
            if fn in vcs:
                continue
            try:
                if fn.startswith('lemma '):
                    vc = driver.gen_lemma(prog, cs, fn[6:])
                elif fn.startswith('ftype|'):
                    _, impl_fn, fts = fn.split('|')
                    vc = driver.gen_functype_impl(prog, cs, impl_fn, fts)
                elif fn.startswith('iface|'):
                    _, impl_fn, its, mname = fn.split('|')
                    vc = driver.gen_iface_impl(prog, cs, impl_fn, (its, mname))
                else:
                    vc = driver.gen(prog, cs, fn)
            except (Unsupported, ContractError, SpecError) as e:
                errors.append((fn, '%s: %s' % (type(e).__name__, e)))
                vcs[fn] = None
                continue
            vcs[fn] = vc
            vc.query(vc.obls[0], 1) if vc.obls else None   # unfolding records the lemmas used
            for ln in sorted(vc.used_lemmas):
                if 'lemma ' + ln not in vcs and not cs.lemmas[ln].axiom:
                    todo.append('lemma ' + ln)
            for k in vc.used_contracts:
                if isinstance(k, str) and k not in vcs and k in cs.funcs and not cs.funcs[k].trusted:
                    todo.append(k)
                if isinstance(k, tuple) and k[0] == 'functype':
                    # contract of a named func type assumed at a call through a function value: every module
                    # function that is converted to that type must satisfy it
                    for impl_fn in prog.functype_values(k[1]):
                        key = 'ftype|%s|%s' % (impl_fn, k[1])
                        if key not in vcs:
                            todo.append(key)
                    continue
                if isinstance(k, tuple):
                    # interface contract assumed at a call: every implementation in the module must satisfy it
                    its, mname = k
                    if cs.ifaces.get(k) is not None and cs.ifaces[k].trusted:
                        continue        # assumed, listed in the evidence
                    for recv in prog.implementors(its):
                        impl_fn = prog.method_fn(recv, mname)
                        if impl_fn and impl_fn in prog.funcs and prog.funcs[impl_fn].synthetic:
                            # promoted method: the wrapper only forwards to the embedded type's method
                            impl_fn = prog.wrapper_target(impl_fn)
                        if impl_fn and impl_fn in prog.funcs and not prog.funcs[impl_fn].synthetic:
                            key = 'iface|%s|%s|%s' % (impl_fn, its, mname)
                            if key not in vcs:
                                todo.append(key)
                            if impl_fn not in vcs and impl_fn in cs.funcs:
                                todo.append(impl_fn)
        if errors:
            # a contract that no longer fits the code (restructured loop, renamed loop variable, unsupported
            # construct) cannot decide anything. Stand-in: the family's bounded check of the real code; only a
            # failing input found there is reported as a violation.
            os.makedirs(os.path.join(VERIF, 'replays'), exist_ok=True)
            hard = []
            seen_fam = set()
            rc = 0
            for fn, e in errors:
                print('CONTRACT-MISMATCH: %s: %s' % (short_fn(prog, fn), e))
                cls = replay_mod.find_family(fn)
                b = cls.bounded_source(prog, fn) if cls is not None else None
                if b is None:
                    hard.append(fn)
                    continue
                if cls in seen_fam:
                    continue
                seen_fam.add(cls)
                pkgdir, src, bound = b
                res, out = replay_mod.run_go_test(self.repo, pkgdir, src, os.path.join(wd.path, 'bounded'))
                self.bounded.append({'function': short_fn(prog, fn), 'bound': bound, 'result': res})
                if res == 'FAIL':
                    h = hashlib.sha1(('bounded' + fn).encode()).hexdigest()[:12]
                    path = os.path.join(VERIF, 'replays', '%s-%s.json' % (pid, h))
                    with open(path, 'w') as f:
                        json.dump({'property': pid, 'obligation': 'bounded stand-in for %s (contract does not fit the code: %s)' % (short_fn(prog, fn), e),
                                   'function': short_fn(prog, fn), 'bound': bound, 'test_pkg': pkgdir, 'test_source': src,
                                   'test_result': res, 'test_output': out[-3000:], 'failing_input_found': True}, f, indent=1)
                    print('BOUNDED-CHECK-FAILED: %s' % out.strip().split('\n')[1][:300] if '\n' in out.strip() else out[:300])
                    print('VIOLATION property=%s replay=%s obligation=%s' % (pid, path, json.dumps('bounded stand-in for ' + short_fn(prog, fn))))
                    rc = 1
                else:
                    print('UNDECIDED: %s is not proved on this tree (contract mismatch); bounded stand-in %s: %s' % (short_fn(prog, fn), res, bound))
            if hard and pid in PROPERTY_BOUNDED:
                # no family of its own: the bounded check of the composed statement of this property (run below) stands in
                for fn in hard:
                    print('UNDECIDED: %s is not proved on this tree (contract mismatch); stand-in: the bounded check of the composed statement of %s' % (short_fn(prog, fn), pid))
                hard = []
            if hard:
                for fn in hard:
                    print('CONTRACT-ERROR: %s has no bounded stand-in; the property is undecided on this tree' % short_fn(prog, fn))
                return 1 if rc else 2
            if rc:
                return 1
            for fn, _ in errors:
                del vcs[fn]
        # package-level invariants are sound only if nothing but the package initialisers stores to those variables
        self.global_writes = []
        if any(vc is not None and getattr(vc, 'assume_globalinvs', False) for vc in vcs.values()):
            pk = set(p_ for p_, _ in cs.globalinvs)
            for fname, f in prog.funcs.items():
                if fname.endswith('.init'):
                    continue
                for b in f.blocks:
                    for i in b['instrs']:
                        if i['op'] == 'Store' and i['addr'].get('k') == 'global' and i['addr']['n'].rsplit('.', 1)[0] in pk:
                            self.global_writes.append('%s stores to %s' % (short_fn(prog, fname), i['addr']['n'].rsplit('/', 1)[-1]))
            for w in self.global_writes:
                print('GLOBAL-WRITTEN: %s (a package-level invariant is assumed for it)' % w)
                os.makedirs(os.path.join(VERIF, 'replays'), exist_ok=True)
                gp = os.path.join(VERIF, 'replays', '%s-global-written.json' % pid)
                with open(gp, 'w') as f_:
                    json.dump({'property': pid, 'obligation': 'package-level variables are written only by their initialiser', 'writes': self.global_writes,
                               'failing_input_found': False}, f_, indent=1)
                print('VIOLATION property=%s replay=%s obligation="package-level variables are written only by their initialiser" no-failing-input-found' % (pid, gp))
        # instances must not share mutable state through package-level variables (ownership scan, shared.py)
        self.shared_accepted, self.shared_report = [], []
        if True:
            # (the ownership scan runs with every property: state shared between instances can break any of them on reuse;
            # the nondeterminism scan below only with C05 and C19)
            from . import shared as shared_mod
            sf, self.shared_accepted, self.shared_report = shared_mod.scan(prog, cs.shared)
            for g, what in sf:
                print('SHARED-STATE: %s' % what)
                os.makedirs(os.path.join(VERIF, 'replays'), exist_ok=True)
                gp = os.path.join(VERIF, 'replays', '%s-shared-state.json' % pid)
                with open(gp, 'w') as f_:
                    json.dump({'property': pid, 'obligation': 'instances share no mutable state through package-level variables',
                               'findings': [w for _, w in sf], 'failing_input_found': False}, f_, indent=1)
                print('VIOLATION property=%s replay=%s obligation="instances share no mutable state through package-level variables (%s)" no-failing-input-found'
                      % (pid, gp, g.rsplit('/', 1)[-1]))
            # A2 (the code is a function of its inputs): every range over a map, clock read, random draw or goroutine in the module
            # must be accepted by a directive that says why the result does not depend on it - or that it is meant to
            nf, self.nondet_accepted = shared_mod.nondeterminism(prog, cs) if pid in SHARED_STATE_PROPERTIES else ([], [])
            for g, what in nf:
                print('NONDETERMINISM: %s' % what)
                gp = os.path.join(VERIF, 'replays', '%s-nondeterminism.json' % pid)
                os.makedirs(os.path.join(VERIF, 'replays'), exist_ok=True)
                with open(gp, 'w') as f_:
                    json.dump({'property': pid, 'obligation': 'no unaccepted source of nondeterminism in the module',
                               'findings': [w for _, w in nf], 'failing_input_found': False}, f_, indent=1)
                print('VIOLATION property=%s replay=%s obligation="no unaccepted source of nondeterminism (%s)" no-failing-input-found'
                      % (pid, gp, g.rsplit('/', 1)[-1]))
            sf = sf + nf
            self.shared_findings = sf
        else:
            self.shared_findings = []
            self.nondet_accepted = []
        # discharge
        items = []
        self.deferred = []
        for fn, vc in sorted(vcs.items()):
            for o in vc.obls:
                if 'slow' in o.tags and self.tier == 'quick':
                    # obligations that need more than the quick timeout are decided in the thorough tier only
                    self.deferred.append(o.name)
                    continue
                items.append((vc, o, vc.query(o, 1)))

        def run(item):
            vc, o, q = item[:3]
            tmo = 120 if 'slow' in o.tags else self.timeout
            if o.expect == 'sat':
                # vacuity covers: one solver, short timeout (undecided covers are reported, not failed)
                return vc, o, smt.solve(q, wd.path, vc.fname + '##' + o.name, 5, order=('z3new',))
            # sliced variant first: only the assumptions that touch a heap family the goal reads, and only the unfoldings of
            # the recursive spec functions the goal names (dropping assumptions is sound; what it does not prove goes on)
            ql = vc.query(o, 1, noq=bool(vc.quant_defs), lite=True) if o.expect == 'unsat' else None
            if ql is not None:
                r0 = smt.solve(ql, wd.path, vc.fname + '##lite##' + o.name, min(tmo, 4), order=('z3new',))
                if r0['status'] == 'unsat':
                    r0['variant'] = 'goal-relevant assumptions only'
                    return vc, o, r0
            if vc.quant_defs:
                # instantiate-only variant first: assumed universal clauses are used through their ground instances
                # alone (dropping the quantified originals is sound: fewer assumptions)
                r0 = smt.solve(vc.query(o, 1, noq=True), wd.path, vc.fname + '##noq##' + o.name, tmo, order=('z3new',))
                if r0['status'] == 'unsat':
                    r0['variant'] = 'instances-only'
                    return vc, o, r0
            r = smt.solve(q, wd.path, vc.fname + '##' + o.name, tmo)
            if r['status'] != o.expect and r['status'] in ('unknown', 'timeout') and o.expect == 'unsat':
                q2 = vc.query(o, 2)
                r2 = smt.solve(q2, wd.path, vc.fname + '##2##' + o.name, self.timeout)
                if r2['status'] == 'unsat':
                    r2['fuel'] = 2
                    return vc, o, r2
            return vc, o, r

        results = []
        with ThreadPoolExecutor(max_workers=16) as ex:
            for vc, o, r in ex.map(run, items):
                results.append((vc, o, r))
        # second chance, unloaded: an obligation that ended in timeout/unknown/error while 16 solvers shared the machine is
        # re-run with four times the time limit, few at a time; only what is still undecided then counts as failed
        # (a refutation - `sat` - is never retried)
        retry = [i for i, (vc, o, r) in enumerate(results) if o.expect == 'unsat' and r['status'] in ('timeout', 'unknown', 'error')]
        self.retried = []
        if retry and len(retry) <= 40:
            def rerun(i):
                vc, o, r = results[i]
                tmo = (120 if 'slow' in o.tags else self.timeout) * 4
                if vc.quant_defs:
                    r0 = smt.solve(vc.query(o, 1, noq=True), wd.path, vc.fname + '##noq4##' + o.name, tmo, order=('z3new',))
                    if r0['status'] == 'unsat':
                        r0['variant'] = 'instances-only'
                        return i, r0
                return i, smt.solve(vc.query(o, 1), wd.path, vc.fname + '##4##' + o.name, tmo)
            with ThreadPoolExecutor(max_workers=4) as ex:
                for i, r2 in ex.map(rerun, retry):
                    self.retried.append(results[i][1].name)
                    if r2['status'] == 'unsat':
                        r2['retried'] = True
                        results[i] = (results[i][0], results[i][1], r2)
        if self.tier == 'thorough':
            results = self.cross_check(results, wd)
        known = [k for k in load_known_findings()]
        known_names = {k['obligation']: k for k in known}
        # a vacuity cover that the solvers cannot decide is not a failure (and is not counted as discharged)
        self.undecided_covers = [o.name for vc, o, r in results if o.expect == 'sat' and r['status'] not in ('sat', 'unsat')]
        results = [(vc, o, r) for vc, o, r in results if not (o.expect == 'sat' and r['status'] not in ('sat', 'unsat'))]
        failed = [(vc, o, r) for vc, o, r in results if r['status'] != o.expect]
        discharged = [(vc, o, r) for vc, o, r in results if r['status'] == o.expect]
        violations = []
        kf_hits = []
        # a store to a field that no contract or specification mentions cannot influence any proved clause;
        # outside the purity property (C19) it is reported as a note, not as a violation
        alltext = '\n'.join(cf['text'] for cf in prog.contract_files)
        notes = []
        kept = []
        for vc, o, r in failed:
            m = re.match(r'store to (\w+) is within assigns', o.clause or '')
            if o.kind == 'frame' and m and m.group(1) not in ('elem', 'cell') and pid != 'C19' and not re.search(r'\b%s\b' % re.escape(m.group(1)), alltext):
                notes.append(o.name)
                continue
            kept.append((vc, o, r))
        failed = kept
        self.notes = notes
        results = [x for x in results if x[1].name not in set(notes)]
        for n in notes:
            print('NOTE: %s (field not mentioned by any contract; not a violation of %s)' % (n, pid))
        for vc, o, r in failed:
            if o.name in known_names:
                kf_hits.append((o, known_names[o.name]))
                continue
            violations.append((vc, o, r))
        # vacuity: every function under contract generates obligations; compare with the ledger
        ledger = load_ledger()
        vac = []
        for fn, vc in vcs.items():
            n = len(vc.obls)
            want = ledger['functions'].get(short_fn(prog, fn), {}).get('obligations')
            if n == 0:
                vac.append('%s generated no obligations' % short_fn(prog, fn))
        # failed obligations of a function that now calls a module function without contract (a helper extracted
        # by a refactoring is havocked) are inconclusive: the bounded stand-in of the family decides
        inconclusive = {}
        for vc, o, r in list(violations):
            unk = [h for h in vc.havoc_calls if h and h != 'dynamic call']
            if unk:
                inconclusive.setdefault(vc.fname, (vc, unk, []))[2].append((vc, o, r))
        for fn, (vc, unk, obs) in inconclusive.items():
            cls = replay_mod.find_family(fn)
            b = cls.bounded_source(prog, fn) if cls is not None else None
            if b is None:
                continue
            pkgdir, src, bound = b
            res, out = replay_mod.run_go_test(self.repo, pkgdir, src, os.path.join(wd.path, 'bounded'))
            self.bounded.append({'function': short_fn(prog, fn), 'bound': bound, 'result': res,
                                 'reason': 'calls %s without contract' % ', '.join(short_fn(prog, u) for u in unk)})
            if res == 'FAIL':
                # the failed obligations stand; the bounded check supplies the failing input
                h = hashlib.sha1(('bounded' + fn).encode()).hexdigest()[:12]
                bpath = os.path.join(VERIF, 'replays', '%s-%s.json' % (pid, h))
                os.makedirs(os.path.join(VERIF, 'replays'), exist_ok=True)
                with open(bpath, 'w') as f:
                    json.dump({'property': pid, 'obligation': 'bounded stand-in for %s; failed obligations: %s' % (short_fn(prog, fn), [o.name for _, o, _ in obs]),
                               'function': short_fn(prog, fn), 'bound': bound, 'test_pkg': pkgdir, 'test_source': src,
                               'test_result': res, 'test_output': out[-3000:], 'failing_input_found': True}, f, indent=1)
                self.bounded_replay[fn] = bpath
                continue
            for x in obs:
                violations.remove(x)
            print('UNDECIDED: %d obligation(s) of %s are not proved on this tree (it calls %s, which has no contract); bounded stand-in %s: %s'
                  % (len(obs), short_fn(prog, fn), ', '.join(short_fn(prog, u) for u in unk), res, bound))
        # bounded stand-in for the part of the statement that is composed on paper from the proved contracts
        # (whole-input / whole-table claims): run on every check, labelled bounded, never counted as proved
        fam_names = PROPERTY_BOUNDED.get(pid) or []
        if isinstance(fam_names, str):
            fam_names = [fam_names]
        for fi, fam_name in enumerate(fam_names):
            cls = getattr(replay_mod, fam_name)
            pkgdir, src, bound = cls.bounded_source(prog, None)
            if self.tier == 'thorough' and getattr(cls, 'thorough', None):
                # the thorough tier widens the bound of the family
                src = cls.source(**cls.thorough)
                bound += ' [thorough tier: widened to %s]' % ', '.join('%s=%s' % kv for kv in sorted(cls.thorough.items()))
            race = self.tier == 'thorough' and pid in RACE_PROPERTIES
            res, out = replay_mod.run_go_test(self.repo, pkgdir, src, os.path.join(wd.path, 'bounded-prop%d' % fi), timeout=600, race=race)
            self.bounded.append({'scope': 'composition of %s over whole inputs' % pid, 'bound': bound + (' (under the race detector)' if race else ''), 'result': res})
            if res != 'PASS':
                os.makedirs(os.path.join(VERIF, 'replays'), exist_ok=True)
                bpath = os.path.join(VERIF, 'replays', '%s-bounded-composition%s.json' % (pid, '' if fi == 0 else '-%d' % fi))
                with open(bpath, 'w') as f:
                    json.dump({'property': pid, 'obligation': 'bounded check of the composed statement', 'bound': bound, 'test_pkg': pkgdir,
                               'test_source': src, 'test_result': res, 'test_output': out[-3000:], 'failing_input_found': res == 'FAIL'}, f, indent=1)
                lines = [l for l in out.split('\n') if 'zz_verif_replay_test.go' in l or 'panic' in l]
                print('BOUNDED-CHECK-FAILED: %s' % (lines[0].strip()[:400] if lines else res))
                print('VIOLATION property=%s replay=%s obligation="bounded check of the composed statement (%s)"%s'
                      % (pid, bpath, bound[:80], '' if res == 'FAIL' else ' no-failing-input-found'))
                self.extra_violations = 1
        for k in kf_hits:
            print('KNOWN-FINDING: property=%s %s [%s]' % (pid, k[1]['what'], k[0].name))
        os.makedirs(os.path.join(VERIF, 'replays'), exist_ok=True)
        vlines = []
        for vc, o, r in violations:
            rec = replay_mod.make_replay(prog, vc, o, r, pid, wd.path, self.repo)
            h = hashlib.sha1(o.name.encode()).hexdigest()[:12]
            path = os.path.join(VERIF, 'replays', '%s-%s.json' % (pid, h))
            with open(path, 'w') as f:
                json.dump(rec, f, indent=1)
            if not rec.get('failing_input_found') and vc.fname in self.bounded_replay:
                path = self.bounded_replay[vc.fname]
                rec = {'failing_input_found': True}
            line = 'VIOLATION property=%s replay=%s' % (pid, path)
            if not rec.get('failing_input_found'):
                line += ' obligation=%s no-failing-input-found' % json.dumps(o.name)
            else:
                line += ' obligation=%s' % json.dumps(o.name)
            # the line must END with the words no-failing-input-found when there is no failing input
            if not rec.get('failing_input_found'):
                line = 'VIOLATION property=%s replay=%s obligation=%s no-failing-input-found' % (pid, path, json.dumps(o.name))
            vlines.append(line)
            print('FAILED-OBLIGATION: %s  [%s by %s, line %d]' % (o.name, r['status'], r['solver'], o.line))
            print(line)
        for v in vac:
            print('VACUITY: %s' % v)
        self.write_evidence(vcs, results, discharged, violations, kf_hits, wd)
        slow = sorted(results, key=lambda x: -x[2]['time'])[:5]
        if slow and slow[0][2]['time'] > 3:
            print('slowest obligations: ' + '; '.join('%.1fs %s' % (r['time'], o.name[:90]) for _, o, r in slow))
        print('phases: load %.1fs, total %.1fs' % (prog.load_time, time.time() - self.t0))
        n_claimed = len(results) - len(kf_hits)
        print('%s: %d functions under contract, %d obligations, %d discharged, %d known findings, %d violations, %.1fs'
              % (pid, len(vcs), n_claimed, len(discharged), len(kf_hits), len(violations) + len(self.shared_findings), time.time() - self.t0))
        if violations or vac or getattr(self, 'extra_violations', 0) or self.global_writes or self.shared_findings:
            return 1
        return 0

    def cross_check(self, results, wd):
        """thorough: every answer confirmed by a second, independent solver"""
        def run(item):
            vc, o, r = item
            if r['status'] != o.expect:
                return vc, o, r
            other = ['cvc5', 'z3'] if r['solver'] == 'z3new' else ['z3new', 'cvc5']
            q = None
            if str(r.get('variant', '')).startswith('goal-relevant'):
                # the answer came from the sliced query: the second solver gets the same one
                q = vc.query(o, 1, noq=bool(vc.quant_defs), lite=True)
            if q is None:
                q = vc.query(o, r.get('fuel', 1))
            r2 = smt.solve(q, wd.path, vc.fname + '##x##' + o.name, self.timeout, order=other)
            r = dict(r)
            r['second'] = (r2['solver'], r2['status'], round(r2['time'], 3))
            return vc, o, r
        out = []
        with ThreadPoolExecutor(max_workers=16) as ex:
            for x in ex.map(run, results):
                out.append(x)
        return out

    def write_evidence(self, vcs, results, discharged, violations, kf_hits, wd):
        prog, cs, pid = self.prog, self.cs, self.pid
        by_solver = {}
        solver_time = 0.0
        for vc, o, r in results:
            by_solver[r['solver']] = by_solver.get(r['solver'], 0) + 1
            solver_time += r['time']
        inlined = set()
        models = set()
        havoc = set()
        for vc in vcs.values():
            inlined.update(short_fn(prog, x) for x in vc.inlined)
            models.update(vc.external_models)
            havoc.update(short_fn(prog, x) for x in vc.havoc_calls)
        samples = []
        for vc, o, r in discharged[:6]:
            samples.append({'obligation': o.name, 'kind': o.kind, 'expect': o.expect, 'status': r['status'], 'solver': r['solver'],
                            'time_s': round(r['time'], 3), 'source_line': o.line})
        kinds = {}
        for vc, o, r in results:
            kinds[o.kind] = kinds.get(o.kind, 0) + 1
        by_variant = {}
        for vc, o, r in discharged:
            v_ = r.get('variant', 'full query')
            by_variant[v_] = by_variant.get(v_, 0) + 1
        n_claimed = len(results) - len(kf_hits)
        second = [r.get('second') for _, _, r in results if r.get('second')]
        ev = {
            'property_id': pid, 'tier': self.tier, 'seed': self.seed, 'level': 'proof',
            'coverage': {
                'obligations': n_claimed, 'discharged': len(discharged),
                'checker_cmd': '/verif/bin/govc check --property %s --tier %s' % (pid, self.tier),
                'trusted_base': ['go/ssa (golang.org/x/tools v0.29.0) front end', '/verif/engine/govc VC generator (SSA semantics encoding)',
                                 'z3 5.1.0 (z3-new), z3 4.8.12, cvc5 1.0.3'],
                'functions_under_contract': sorted(short_fn(prog, f) for f in vcs),
                'obligations_by_kind': kinds, 'discharged_by_solver': by_solver, 'solver_time_s': round(solver_time, 2),
                'discharged_by_query_variant': by_variant,
                'cross_checked_by_second_solver': sum(1 for s in second if s[1] in ('sat', 'unsat')),
                'inlined_functions': sorted(inlined), 'trusted_models_used': sorted(models), 'havocked_calls': sorted(havoc),
                'known_finding_obligations': [o.name for o, _ in kf_hits],
                'failed_obligations': [o.name for _, o, _ in violations],
                'undecided_vacuity_covers': self.undecided_covers,
                'retried_with_longer_timeout': getattr(self, 'retried', []),
                'notes_not_counted': getattr(self, 'notes', []),
                'deferred_to_thorough_tier': self.deferred,
                'bounded': self.bounded,
                'ownership_scan': {'scope': 'every package-level variable of the module (go/ssa): handed on to instances and mutable, or written outside init',
                                   'findings': [w for _, w in self.shared_findings], 'accepted_shared': self.shared_accepted, 'variables': self.shared_report,
                                   'accepted_nondeterminism': getattr(self, 'nondet_accepted', [])},
                'integer_mode': 'mathematical Int with exact wrap-around (wrap64/wrap32) on + - *; lengths <= 2^40 assumed',
                'extraction': 'go/ssa built from the working tree on this run; drops comments, parenthesisation, names of temporaries',
                'samples': samples,
                'load_time_s': round(prog.load_time, 2),
            },
            'assumptions': sorted(set(cs.assumptions)) + ASSUMPTIONS + ['A17 ' + a for a in self.shared_accepted] + ['A2 ' + a for a in getattr(self, 'nondet_accepted', [])],
            'wall_s': round(time.time() - self.t0, 2), 'violations': len(violations) + getattr(self, 'extra_violations', 0) + len(self.shared_findings),
        }
        # (the seed scripts run checks against deliberately broken trees: they redirect the evidence elsewhere)
        evdir = os.environ.get('GOVC_EVIDENCE_DIR') or os.path.join(VERIF, 'evidence')
        os.makedirs(evdir, exist_ok=True)
        with open(os.path.join(evdir, pid + '.json'), 'w') as f:
            json.dump(ev, f, indent=1)


RACE_PROPERTIES = ('C19',)
SHARED_STATE_PROPERTIES = ('C05', 'C19')
PROPERTY_BOUNDED = {'C07': 'RoundTripFamily', 'C01': ['TreeFamily', 'ParserFamily'], 'C10': 'MustacheFamily', 'C09': 'CsvFamily', 'C13': 'LexemeFamily', 'C05': 'HistoryFamily', 'C18': ['DiscoveryFamily', 'CollectionFamily'], 'C19': ['EvaluatorFamily', 'MustacheFamily'], 'C03': ['EvaluatorFamily', 'MustacheFamily'], 'C08': 'FunctionFamily', 'C02': 'ParserFamily', 'C04': 'TokenizerFamily', 'C12': 'TokenizerFamily', 'C15': 'OptionsFamily', 'C14': 'QuoteFamily', 'C16': 'SymbolFamily',
                    'C20': 'VariantFamily', 'C06': 'OpsFamily', 'C11': 'ScannerFamily', 'C17': 'CharMapFamily'}

ASSUMPTIONS = [
    'A0 trusted computing base: go/ssa front end, this engine, the SMT solvers',
    'A3 int is 64 bits; slice and string lengths <= 2^40',
    'heap model: no dangling references; unallocated memory is never read',
]


def cmd_check(args):
    return Checker(args.property, args.tier, args.repo).run()


def cmd_replay(args):
    rec = json.load(open(args.path))
    if not rec.get('test_source'):
        print('replay file carries no test (obligation %s): solver output follows' % rec.get('obligation'))
        print(rec.get('solver_output', ''))
        return 1
    wd = driver.Workdir()
    try:
        res, out = replay_mod.run_go_test(driver.REPO, rec['test_pkg'], rec['test_source'], os.path.join(wd.path, 'replay'))
        print(out)
        print('replay of %s: %s' % (rec['obligation'], res))
        return 1 if res == 'FAIL' else 0
    finally:
        wd.cleanup()


def cmd_selftest(args):
    from .selftest import run_selftest
    return run_selftest(args)
