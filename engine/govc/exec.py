"""Symbolic execution of one go/ssa function into a VC (see vcgen.py)."""
import os
import struct
from .smt import V, num, sym, and_, or_, not_, imp, ite, eq, INT_RANGES
from .vcgen import Loc, State, Unsupported, ContractError, short_fn, san, MAXLEN
from .speceval import SpecEval
from .spec import SpecError, resolve_type

BOX = {'Int': 'a.int', 'Bool': 'a.bool', 'F32': 'a.f32', 'F64': 'a.f64', 'Str': 'a.str', 'Slice': 'a.slice', 'Time': 'a.time'}


def ctor_for(vc, ts):
    s = vc.sort_of(ts)
    if s not in BOX:
        raise Unsupported('boxing sort ' + s)
    if s == 'Int' and vc.is_ref_type(ts):
        return 'a.ptr'
    return BOX[s]


def box(vc, v):
    if v.sort == 'Any':
        return v
    if v.sort == 'Nil':
        return V('a.nil', 'Any', 'any')
    if v.ts is None:
        raise Unsupported('boxing untyped value')
    return V('(%s %d %s)' % (ctor_for(vc, v.ts), vc.tid(v.ts), v.term), 'Any', 'any')


def is_type(vc, x, ts):
    """x (Any) holds dynamic type ts (concrete)"""
    c = ctor_for(vc, ts)
    return and_('((_ is %s) %s)' % (c, x.term), '(= (%s.t %s) %d)' % (c, x.term, vc.tid(ts)))


def unbox(vc, x, ts):
    s = vc.sort_of(ts)
    if s == 'Any':
        return V(x.term, 'Any', ts)
    return V('(%s.v %s)' % (ctor_for(vc, ts), x.term), s, ts)


def is_lit(t):
    import re
    return re.match(r'^(\d+|\(- \d+\))$', t) is not None


def fp_lit(hexs, bits):
    f = float.fromhex(hexs)
    if bits == 64:
        b = struct.unpack('>Q', struct.pack('>d', f))[0]
        s = format(b, '064b')
        return '(fp #b%s #b%s #b%s)' % (s[0], s[1:12], s[12:])
    b = struct.unpack('>I', struct.pack('>f', f))[0]
    s = format(b, '032b')
    return '(fp #b%s #b%s #b%s)' % (s[0], s[1:9], s[9:])


PANIC_KINDS = ('panic', 'nil', 'bounds', 'ifacecmp', 'divzero', 'shift', 'typeassert', 'callee-may-panic', 'pre')


class Exec:
    def __init__(self, vc, func, contract, prefix='', depth=0, top=None):
        self.vc = vc
        self.prog = vc.prog
        self.f = func
        self.contract = contract
        self.prefix = prefix
        self.depth = depth
        self.top = top or self
        self.vals = {}
        self.named = {}
        self.defs = {}
        self.defblock = {}
        for b in func.blocks:
            for ins in b['instrs']:
                if 'n' in ins:
                    self.defs[ins['n']] = ins
                    self.defblock[ins['n']] = b['idx']
        self.loopinfo = {}
        self.entry_state = None
        self.entry_env = None
        self.deferred = []
        self.panic_edges = []
        self.callsite = 0
        self.rets = []
        self.pkg = func.pkg or (contract.pkg if contract else None)

    # ---- naming ---------------------------------------------------------------------
    def nm(self, n):
        return 'v$' + self.prefix + n

    def site(self, kind):
        return self.top.vc.site(self.prefix + kind) if False else self.vc.site(kind)

    def oblige(self, kind, clause, guard, goal, tags=(), line=0, site=None, skolems=None):
        if site is None:
            site = '%s%d' % (kind, self.vc.site(kind))
        tc = self.top.contract
        if kind in PANIC_KINDS and tc is not None and getattr(tc, 'maypanic', False) and not tc.nopanic:
            # a function that is allowed to panic: the path simply ends here when the condition fails (every caller
            # of oblige for these kinds assumes the condition afterwards)
            self.vc.waived_panics.append('%s: %s' % (kind, clause))
            return None
        if kind in PANIC_KINDS and kind not in ('callee-may-panic', 'pre') and self.top is self and self.cur is not None and self.recovers():
            # a run-time panic of an instruction inside a function whose deferred closure recovers: not an obligation but a
            # second path - taken exactly when the safety condition fails - through the deferred closure to the recover block
            # (every caller of oblige for these kinds assumes the condition on the normal path afterwards)
            self.fork_panic_when(guard, goal, clause, line)
            return None
        tg = list(tags)
        if self.top.contract is not None:
            tg += [t for t in self.top.contract.tags if t not in tg]
        o = self.vc.oblige(kind, site, clause, guard, goal, tg, line, prefix=self.prefix)
        if skolems:
            o.skolems = list(skolems)
        return o

    # ---- operands ---------------------------------------------------------------------
    def op(self, o):
        if o is None:
            return None
        k = o['k']
        if k in ('reg', 'param', 'freevar'):
            if o['n'] not in self.vals:
                raise Unsupported('use of undefined value %s in %s' % (o['n'], self.f.name))
            return self.vals[o['n']]
        if k == 'const':
            return self.const(o)
        if k == 'global':
            ets = self.prog.globals.get(o['n'], {}).get('elem')
            if ets is None:
                ets = self.prog.td(o['t'])['elem']
            return Loc('global', ets, name=o['n'])
        if k == 'func':
            return V(str(self.vc.tid('func:' + o['n'])), 'Int', o['t'])
        if k == 'builtin':
            return ('builtin', o['n'])
        raise Unsupported('operand kind ' + k)

    def const(self, o):
        ts = o['t']
        s = self.vc.sort_of(ts)
        if o.get('nil'):
            if s == 'Nil':
                return V('0', 'Nil', None)
            return V(self.vc.zero_of_sort(s), s, ts)
        ck = o['ck']
        if s == 'Int':
            return V(num(int(o['v'])), 'Int', ts)
        if s == 'Bool':
            return V('true' if o['v'] else 'false', 'Bool', ts)
        if s == 'Str':
            return V(self.vc.strlit(o['v']), 'Str', ts)
        if s == 'F64':
            if ck == 'int':
                return V(fp_lit(float(int(o['v'])).hex(), 64), 'F64', ts)
            return V(fp_lit(o['f64hex'], 64), 'F64', ts)
        if s == 'F32':
            if ck == 'int':
                return V(fp_lit(float(int(o['v'])).hex(), 32), 'F32', ts)
            return V(fp_lit(o['f32hex'], 32), 'F32', ts)
        raise Unsupported('constant of sort ' + s)

    def val(self, o):
        v = self.op(o)
        if isinstance(v, Loc):
            raise Unsupported('address used as value (%s)' % v.kind)
        return v

    def setv(self, ins, v):
        if isinstance(v, V) and v.sort not in ('Tuple',):
            t = self.vc.define(self.nm(ins['n']), v.sort, v.term)
            v = V(t, v.sort, ins.get('t') or v.ts)
        self.vals[ins['n']] = v

    # ---- spec evaluation ----------------------------------------------------------------
    def spec(self, env, st, old=None, old_env=None, pkg=None):
        ev = SpecEval(self.vc, pkg or self.pkg, env, st, old, old_env)
        ev.hdr = getattr(self.top, 'headers', {})
        return ev

    def param_env(self):
        env = {}
        for p in self.f.params:
            env[p['n']] = self.vals[p['n']]
        if self.contract is not None and self.contract.recv_name and self.f.params:
            env[self.contract.recv_name] = self.vals[self.f.params[0]['n']]
        if self.contract is not None and getattr(self.contract, 'alias_recv', None) and self.f.params:
            env.setdefault(self.contract.alias_recv, self.vals[self.f.params[0]['n']])
        if self.contract is not None and self.contract.param_names:
            # interface contract checked on an implementation: the interface's parameter names alias ours
            for nme, p in zip(self.contract.param_names, self.f.params[1:]):
                env.setdefault(nme, self.vals[p['n']])
        for nme, pn in (getattr(self.contract, 'param_alias', None) or {}).items():
            env.setdefault(nme, self.vals[pn])
        return env

    # ---- main loop ----------------------------------------------------------------------
    def run(self, args, state, reach):
        f = self.f
        vc = self.vc
        if len(args) != len(f.params):
            raise Unsupported('arity mismatch calling ' + f.name)
        for p, a in zip(f.params, args):
            self.vals[p['n']] = a
        self.entry_state = state.copy()
        self.entry_env = self.param_env()
        if self.top is self:
            # block -> set of blocks reachable from it (full CFG), for path slicing of assumptions
            rs = {}
            for b in f.blocks:
                seen = set()
                stk = [b['idx']]
                while stk:
                    x = stk.pop()
                    if x in seen:
                        continue
                    seen.add(x)
                    stk.extend(f.blocks[x]['succs'])
                if f.recover is not None and f.recover >= 0:
                    seen.add(f.recover)     # panic edges
                rs[b['idx']] = seen
            vc.reach_sets = rs
        order = f.topo_order()
        loops = {l['header']: l for l in f.loops()}
        back = set()
        for l in f.loops():
            back.update(l['backedges'])
        self.back = back
        self.edge = {}
        self.named_out = {}
        self.named = {}
        for b in order:
            blk = f.blocks[b]
            if b == 0:
                r, st = reach, state.copy()
                ins = []
            elif b == f.recover:
                continue
            else:
                ins = [(p, self.edge[(p, b)]) for p in blk['preds'] if (p, b) in self.edge and (p, b) not in back]
                if not ins:
                    continue
                # source-level names: a name survives a join only if all incoming paths agree on its value
                maps = [self.named_out.get(p, {}) for p, _ in ins]
                nm = {}
                for k, v in maps[0].items():
                    if all(k in m and m[k].term == v.term for m in maps[1:]):
                        nm[k] = v
                self.named = nm
                if self.top is self:
                    vc.cur_block = b
                if b in loops:
                    r, st = self.enter_loop(loops[b], ins)
                else:
                    r, st = self.merge(b, ins)
            self.cur = b
            self.cur_ins = ins
            self.reach = r
            self.st = st
            if self.top is self:
                vc.cur_block = b
            self.exec_block(blk, b in loops)
            self.named_out[b] = self.named
        if self.panic_edges:
            rb = f.blocks[f.recover]
            if rb['succs'] or rb['preds']:
                raise Unsupported('recover block with control flow in ' + short_fn(self.prog, f.name))
            conds = [c for c, _ in self.panic_edges]
            if len(conds) == 1:
                self.reach, self.st = conds[0], self.panic_edges[0][1].copy()
            else:
                self.reach = vc.define(self.nm('reach$recover'), 'Bool', or_(*conds))
                self.st = self.merge_states(f.recover, conds, [s_ for _, s_ in self.panic_edges])
            self.cur = f.recover
            self.named = {}
            if self.top is self:
                vc.cur_block = f.recover
            self.exec_block(rb, False)
        return self.rets

    def merge(self, b, ins):
        vc = self.vc
        if len(ins) == 1:
            return ins[0][1][0], ins[0][1][1].copy()
        conds = [e[0] for _, e in ins]
        r = vc.define(self.nm('reach%d' % b), 'Bool', or_(*conds))
        states = [e[1] for _, e in ins]
        return r, self.merge_states(b, conds, states)

    def merge_states(self, b, conds, states):
        vc = self.vc
        epochs = set(s.epoch for s in states)
        names = set()
        for s in states:
            names.update(s.heap)
        if len(epochs) > 1:
            names.update(vc.heap_sorts)
            ep = vc.new_epoch()
        else:
            ep = states[0].epoch
        out = State(vc, {}, None, ep)
        for n in sorted(names):
            sort = vc.heap_sorts[n]
            terms = [s.get(n, sort) for s in states]
            if all(t == terms[0] for t in terms):
                if len(epochs) > 1 or n in states[0].heap:
                    out.heap[n] = terms[0]
                continue
            t = terms[-1]
            for c, x in zip(reversed(conds[:-1]), reversed(terms[:-1])):
                t = ite(c, x, t)
            out.heap[n] = vc.define('%s$m%d' % (n, b), sort, t)
        allocs = [s.alloc for s in states]
        if all(a == allocs[0] for a in allocs):
            out.alloc = allocs[0]
        else:
            t = allocs[-1]
            for c, x in zip(reversed(conds[:-1]), reversed(allocs[:-1])):
                t = ite(c, x, t)
            out.alloc = vc.define(self.nm('alloc$m%d' % b), 'Int', t)
        return out

    # ---- loops ----------------------------------------------------------------------------
    def loop_contract(self, loop):
        c = self.contract
        if c is None or loop['ordinal'] not in c.loops:
            raise ContractError('%s: loop %d (block %d) has no invariant' % (short_fn(self.prog, self.f.name), loop['ordinal'], loop['header']))
        return c.loops[loop['ordinal']]

    def enter_loop(self, loop, ins):
        vc = self.vc
        h = loop['header']
        lc = self.loop_contract(loop)
        blk = self.f.blocks[h]
        pre_r, pre_st = self.merge(h, ins)
        if len(ins) > 1:
            pass
        conds = [e[0] for _, e in ins]
        # entry values of the header phis
        phis = [i for i in blk['instrs'] if i['op'] == 'Phi']
        entry_vals = {}
        for ph in phis:
            vs = []
            for p, _ in ins:
                idx = blk['preds'].index(p)
                vs.append(self.val(ph['edges'][idx]))
            t = vs[-1].term
            for c, x in zip(reversed(conds[:-1]), reversed(vs[:-1])):
                t = ite(c, x.term, t)
            entry_vals[ph['n']] = V(t, vs[0].sort, ph['t'])
        tags_inv = lambda cl: cl.tags
        # invariant on entry
        env0 = self.param_env()
        env0.update(self.named)
        envE = dict(env0)
        for ph in phis:
            if ph.get('comment'):
                envE[ph['comment']] = entry_vals[ph['n']]
        for i, cl in enumerate(lc.invariants):
            ev = self.spec(envE, pre_st, self.entry_state, self.entry_env)
            g = self.eval_clause(ev, cl, 'invariant', 'goal')
            self.oblige('inv-entry', cl.text, pre_r, g.term, cl.tags, blk['instrs'][0].get('line', 0), site='loop%d.%d' % (loop['ordinal'], i), skolems=ev.skolems)
        # header state: havoc what the body modifies
        st = pre_st.copy()
        mods = self.loop_modifies(loop, pre_st)
        if mods == 'all':
            st.havoc_all()
        else:
            for hn, m in sorted(mods.items()):
                sort = vc.heap_sorts[hn]
                if m == 'whole':
                    st.set(hn, vc.declare(hn + '$h%d' % h, sort))
                else:
                    cur = st.get(hn, sort)
                    es = sort[4:]
                    for ref in sorted(m):
                        cur = '(store %s %s %s)' % (cur, ref, vc.declare(hn + '$h%d' % h, es))
                    st.set(hn, vc.define(hn + '$hs%d' % h, sort, cur))
        a = vc.declare(self.nm('alloc$h%d' % h), 'Int')
        r = vc.declare(self.nm('reach$h%d' % h), 'Bool')
        vc.assume(pre_r, r)
        vc.assume('(>= %s %s)' % (a, pre_st.alloc), r)
        st.alloc = a
        envH = dict(env0)
        for ph in phis:
            c = vc.declare(self.nm(ph['n']), vc.sort_of(ph['t']))
            v = V(c, vc.sort_of(ph['t']), ph['t'])
            self.vals[ph['n']] = v
            vc.range_assume(v, r)
            self.ref_assume(v, st, r)
            if ph.get('comment'):
                envH[ph['comment']] = v
                self.named[ph['comment']] = v
        for i, cl in enumerate(lc.invariants):
            ev = self.spec(envH, st, self.entry_state, self.entry_env)
            g = self.eval_clause(ev, cl, 'invariant', 'assume', r)
            vc.assume(g.term, r)
        # `use lemma(args) at loopN [if cond]`: the lemma applied in the state at the loop head, every iteration
        if self.contract is not None and self.top is self:
            for (site, lname, largs, ucond) in self.contract.uses:
                if site != 'loop%d' % loop['ordinal']:
                    continue
                if lname not in vc.cs.lemmas:
                    raise ContractError('use of unknown lemma %s' % lname)
                evu = self.spec(envH, st, self.entry_state, self.entry_env)
                try:
                    avs = [evu.eval(a) for a in largs]
                    ug = r
                    if ucond is not None:
                        ug = vc.define(self.nm('usecond$h%d' % h), 'Bool', and_(r, evu.eval(ucond).term))
                except SpecError as e:
                    raise ContractError('%s: use %s at loop%d: %s' % (short_fn(self.prog, self.f.name), lname, loop['ordinal'], e))
                apply_lemma(vc, vc.cs.lemmas[lname], avs, ug, 'loop%d.use.%s' % (loop['ordinal'], lname), self.contract.tags, blk['instrs'][0].get('line', 0))
        m0 = None
        if lc.decreases is not None:
            ev = self.spec(envH, st, self.entry_state, self.entry_env)
            m0 = [ev.eval(x) for x in lc.decreases.expr]
            m0 = [V(vc.define(self.nm('measure$h%d' % h), 'Int', m.term), 'Int') for m in m0]
        self.loopinfo[h] = {'loop': loop, 'lc': lc, 'phis': phis, 'env0': env0, 'm0': m0, 'n': 0}
        self.top.headers = getattr(self.top, 'headers', {})
        if self.top is self:
            self.headers[loop['ordinal']] = (dict(envH), st.copy())
        return r, st

    def close_backedge(self, src, h, cond, st):
        vc = self.vc
        li = self.loopinfo[h]
        loop, lc, phis = li['loop'], li['lc'], li['phis']
        blk = self.f.blocks[h]
        idx = blk['preds'].index(src)
        env = dict(li['env0'])
        for k, v in self.named.items():
            env.setdefault(k, v)
        for ph in phis:
            if ph.get('comment'):
                env[ph['comment']] = self.val(ph['edges'][idx])
        k = li['n']
        li['n'] += 1
        line = self.f.blocks[src]['instrs'][-1].get('line', 0)
        # `use lemma(args) at backN [if cond]`: the lemma applied in the state at the end of the body, on every back edge of loop N
        # (`atheader(N, e)` names the value e had at the loop head of this iteration)
        if self.contract is not None and self.top is self:
            for (site, lname, largs, ucond) in self.contract.uses:
                if site != 'back%d' % loop['ordinal']:
                    continue
                if lname not in vc.cs.lemmas:
                    raise ContractError('use of unknown lemma %s' % lname)
                evu = self.spec(env, st, self.entry_state, self.entry_env)
                try:
                    avs = [evu.eval(a) for a in largs]
                    ug = cond
                    if ucond is not None:
                        ug = vc.define(self.nm('usecond$b%d.%d' % (h, k)), 'Bool', and_(cond, evu.eval(ucond).term))
                except SpecError as e:
                    raise ContractError('%s: use %s at back%d: %s' % (short_fn(self.prog, self.f.name), lname, loop['ordinal'], e))
                apply_lemma(vc, vc.cs.lemmas[lname], avs, ug, 'loop%d.back%d.use.%s' % (loop['ordinal'], k, lname), self.contract.tags, line)
        for i, cl in enumerate(getattr(lc, 'repeats', [])):
            ev = self.spec(env, st, self.entry_state, self.entry_env)
            g = self.eval_clause(ev, cl, 'repeat-only-if', 'goal')
            self.oblige('repeat', 'the body goes round again only if ' + cl.text, cond, g.term, cl.tags, line, site='loop%d.back%d.r%d' % (loop['ordinal'], k, i), skolems=ev.skolems)
        for i, cl in enumerate(lc.invariants):
            ev = self.spec(env, st, self.entry_state, self.entry_env)
            g = self.eval_clause(ev, cl, 'invariant', 'goal')
            self.oblige('inv-pres', cl.text, cond, g.term, cl.tags, line, site='loop%d.back%d.%d' % (loop['ordinal'], k, i), skolems=ev.skolems)
        if lc.decreases is not None:
            ev = self.spec(env, st, self.entry_state, self.entry_env)
            m1 = [ev.eval(x) for x in lc.decreases.expr]
            self.oblige('decreases', lc.decreases.text, cond, lex_less(m1, li['m0']), lc.decreases.tags + ['C03'], line,
                        site='loop%d.back%d' % (loop['ordinal'], k))
        elif any(i_['op'] == 'Next' and not i_.get('isstring') for i_ in blk['instrs']):
            # a range over a map: the iteration visits each entry at most once and ends (trusted model of the runtime)
            self.vc.external_models.add('range over map (finite iteration, unspecified order)')
        else:
            self.oblige('decreases', 'missing decreases clause', cond, 'false', ['C03'], line, site='loop%d.back%d' % (loop['ordinal'], k))

    def eval_clause(self, ev, cl, what, mode=None, guard='true'):
        ev.mode = mode
        ev.guard = guard
        try:
            g = ev.eval(cl.expr)
        except SpecError as e:
            raise ContractError('%s: %s %r: %s' % (short_fn(self.prog, self.f.name), what, cl.text, e))
        if g.sort != 'Bool':
            raise ContractError('%s: %s %r is not boolean' % (short_fn(self.prog, self.f.name), what, cl.text))
        return g

    def outside(self, o, loop):
        """operand defined outside the loop body (so its value is loop-invariant)"""
        if o['k'] in ('param', 'const', 'global', 'func', 'freevar'):
            return True
        if o['k'] == 'reg':
            return self.defblock.get(o['n']) not in loop['body']
        return False

    def loop_modifies(self, loop, pre_st):
        """heap arrays the loop body may change: name -> 'whole' | set(ref terms) ; or 'all'"""
        vc = self.vc
        mods = {}

        def add(hn, ref):
            if ref is None:
                mods[hn] = 'whole'
            elif mods.get(hn) != 'whole':
                mods.setdefault(hn, set()).add(ref)

        def add_map(mts):
            # an update of a map in the body: the key set and the values of every map of that type may change
            xtd = self.prog.under(mts)
            ks, vs = vc.sort_of(xtd['key']), vc.sort_of(xtd['elem'])
            hn = 'M.%s.%s' % (san(ks), san(vs))
            vc.heap_sorts[hn + '.has'] = 'Arr:Map:%s>Bool' % ks
            vc.heap_sorts[hn + '.val'] = 'Arr:Map:%s>%s' % (ks, vs)
            add(hn + '.has', None)
            add(hn + '.val', None)

        def scan_func(func, body_blocks, argmap, depth, loop_):
            """argmap: callee param name -> (V, is_outside) ; None for top level"""
            for bi in body_blocks:
                for ins in func.blocks[bi]['instrs']:
                    op = ins['op']
                    if op == 'Store':
                        r = self.store_target(func, ins['addr'], argmap, loop_, depth)
                        if r == 'fresh':
                            continue
                        if r == 'all':
                            return 'all'
                        add(*r)
                    elif op in ('Call', 'Defer'):
                        r = scan_call(func, ins, argmap, depth, loop_)
                        if r == 'all':
                            return 'all'
                    elif op == 'MapUpdate':
                        add_map(ins['map']['t'])
                    elif op == 'Next' and not ins.get('isstring'):
                        # the ghost set of keys a map iteration has produced
                        d_ = (self.defs if func is self.f else {i['n']: i for b in func.blocks for i in b['instrs'] if 'n' in i}).get(ins['iter']['n'])
                        if d_ is not None and d_['op'] == 'Range' and self.prog.under(d_['x']['t'])['k'] == 'map':
                            ks_ = vc.sort_of(self.prog.under(d_['x']['t'])['key'])
                            vc.heap_sorts['G.seen.%s' % san(ks_)] = 'Arr:Map:%s>Bool' % ks_
                            add('G.seen.%s' % san(ks_), None)
                    elif op == 'Go':
                        return 'all'
            return None

        def argval(func, o, argmap, loop_):
            """value of operand o of func if loop-invariant, else None"""
            if argmap is None:
                if self.outside(o, loop_) and o['k'] != 'global':
                    try:
                        v = self.op(o)
                    except Unsupported:
                        return None
                    return v if isinstance(v, V) else None
                return None
            if o['k'] == 'param' and o['n'] in argmap:
                return argmap[o['n']]
            if o['k'] == 'const':
                try:
                    return self.const(o)
                except Unsupported:
                    return None
            return None

        def scan_call(func, ins, argmap, depth, loop_):
            call = ins['call']
            from . import models
            callee, cc, how = self.resolve_call(call)
            if how == 'builtin':
                bn = call['fn']['n']
                if bn == 'append':
                    ets = self.prog.under(call['args'][0]['t'])['elem']
                    hn, _ = vc.elem_heap(vc.sort_of(ets))
                    add(hn, None)
                elif bn == 'copy':
                    ets = self.prog.under(call['args'][0]['t'])['elem']
                    hn, _ = vc.elem_heap(vc.sort_of(ets))
                    add(hn, None)
                elif bn == 'delete':
                    add_map(call['args'][0]['t'])
                return None
            if how == 'model':
                m = models.MODELS[callee]
                for hn, sort in m.get('modifies', []):
                    vc.heap_sorts.setdefault(hn, sort)
                    add(hn, None)
                return None
            if how == 'contract':
                if cc.assigns is None:
                    return 'all'
                cf = self.prog.funcs.get(callee)
                pnames = self.callee_param_names(cf, cc, call)
                amap = {}
                actuals = self.call_actuals(call)
                for pn, ao in zip(pnames, actuals):
                    amap[pn] = argval(func, ao, argmap, loop_)
                if call['invoke'] and pnames and amap.get(pnames[0]) is not None:
                    impl = self.impl_of(call['iface'])
                    if impl and cf is not None:
                        amap[pnames[0]] = unbox(vc, amap[pnames[0]], impl)
                    elif amap[pnames[0]].sort == 'Any':
                        amap[pnames[0]] = None
                for kind, ex, text in cc.assigns:
                    r = self.assign_target_heap(cc, cf, kind, ex, amap, pre_st)
                    add(*r)
                return None
            if how == 'inline':
                cf = self.prog.funcs[callee]
                if depth > 6:
                    return 'all'
                amap = {}
                for p, ao in zip(cf.params, self.call_actuals(call)):
                    amap[p['n']] = argval(func, ao, argmap, loop_)
                if call['invoke'] and cf.params and amap.get(cf.params[0]['n']) is not None:
                    impl = self.impl_of(call['iface'])
                    amap[cf.params[0]['n']] = unbox(vc, amap[cf.params[0]['n']], impl) if impl else None
                return scan_func(cf, [b['idx'] for b in cf.blocks], amap, depth + 1, {'body': set()})
            return 'all'

        r = scan_func(self.f, sorted(loop['body']), None, 0, loop)
        if r == 'all':
            return 'all'
        return mods

    def store_target(self, func, addr, argmap, loop_, depth):
        """classify the target of a Store for loop-modifies: ('fresh') | (heapname, ref|None) | 'all'"""
        vc = self.vc
        if addr['k'] == 'global':
            ets = self.prog.globals[addr['n']]['elem']
            hn, _ = vc.global_heap(addr['n'], ets)
            return (hn, None)
        if addr['k'] != 'reg':
            return 'all'
        defs = self.defs if func is self.f else {i['n']: i for b in func.blocks for i in b['instrs'] if 'n' in i}
        d = defs.get(addr['n'])
        if d is None:
            return 'all'
        if d['op'] == 'FieldAddr':
            fts = self.prog.td(d['t'])['elem']
            hn, _ = vc.field_heap(d['stype'], d['fname'], fts)
            base = d['x']
            if base['k'] == 'reg' and defs.get(base['n'], {}).get('op') == 'Alloc':
                ab = base['n']
                if func is not self.f or self.defblock.get(ab) in loop_['body']:
                    return 'fresh'
            if argmap is None:
                if self.outside(base, loop_):
                    try:
                        v = self.op(base)
                    except Unsupported:
                        return (hn, None)
                    if isinstance(v, V):
                        return (hn, v.term)
                return (hn, None)
            if base['k'] == 'param' and argmap.get(base['n']) is not None:
                return (hn, argmap[base['n']].term)
            return (hn, None)
        if d['op'] == 'IndexAddr':
            xts = d['x']['t']
            xtd = self.prog.under(xts)
            if xtd['k'] == 'slice':
                hn, _ = vc.elem_heap(vc.sort_of(xtd['elem']))
                base = d['x']
                if base['k'] == 'reg' and defs.get(base['n'], {}).get('op') in ('MakeSlice',):
                    if func is not self.f or self.defblock.get(base['n']) in loop_['body']:
                        return 'fresh'
                return (hn, None)
            if xtd['k'] == 'ptr' and self.prog.under(xtd['elem'])['k'] == 'array':
                # element of an array reached through a pointer (e.g. the packed arguments of a variadic call)
                hn, _ = vc.elem_heap(vc.sort_of(self.prog.under(xtd['elem'])['elem']))
                base = d['x']
                if base['k'] == 'reg' and defs.get(base['n'], {}).get('op') == 'Alloc':
                    if func is not self.f or self.defblock.get(base['n']) in loop_['body']:
                        return 'fresh'
                return (hn, None)
            return 'all'
        if d['op'] == 'Alloc':
            if func is not self.f or self.defblock.get(addr['n']) in loop_['body']:
                return 'fresh'
            ets = d['elem']
            try:
                hn, _ = vc.cell_heap(vc.sort_of(ets))
            except Unsupported:
                return 'all'
            return (hn, None)
        return 'all'

    def assign_target_heap(self, cc, cf, kind, ex, amap, st):
        """heap array (and ref term if loop-invariant) named by an assigns target of a callee"""
        vc = self.vc
        # target forms: x.f  (x a callee parameter) ; deeper paths -> whole field
        if kind == 'fieldall':
            return (self.fieldall_heap(cc.pkg, ex)[0], None)
        if kind == 'elems' and ex[0] != 'field':
            env = {}
            for pn, pt in zip(self.callee_param_names(cf, cc, None), self.callee_param_types(cf, cc)):
                env[pn] = V(self.dummy(vc.sort_of(pt)), vc.sort_of(pt), pt)
            ev = SpecEval(vc, cc.pkg, env, st, None)
            sl = ev.eval(ex)
            hn, _ = vc.elem_heap(vc.sort_of(self.prog.under(sl.ts)['elem']))
            return (hn, None)
        if ex[0] != 'field':
            raise ContractError('assigns target must be a field access: %r' % (ex,))
        base = ex[1]
        # static type of base: evaluate types only
        bts = self.static_type(cc, cf, base)
        if not bts.startswith('*'):
            raise ContractError('assigns target base is not a pointer: %r' % (ex,))
        ev = SpecEval(vc, cc.pkg, {}, st, None)
        path = ev.find_field(bts[1:], ex[2])
        if not path:
            raise ContractError('assigns: no field %s in %s' % (ex[2], bts))
        st_, fn_, ft_ = path[-1]
        if kind == 'elems':
            es = vc.sort_of(self.prog.under(ft_)['elem'])
            hn, _ = vc.elem_heap(es)
            return (hn, None)
        hn, _ = vc.field_heap(st_, fn_, ft_)
        if base[0] == 'id' and len(path) == 1 and amap.get(base[1]) is not None:
            return (hn, amap[base[1]].term)
        return (hn, None)

    def dummy(self, sort):
        """a declared constant of the sort, for evaluations that are only needed for their type"""
        d = getattr(self.vc, '_dummies', None)
        if d is None:
            d = self.vc._dummies = {}
        if sort not in d:
            d[sort] = self.vc.declare('dummy$' + san(sort), sort)
        return d[sort]

    def static_type(self, cc, cf, e):
        if e[0] == 'id':
            names = self.callee_param_names(cf, cc, None)
            if e[1] in names:
                i = names.index(e[1])
                return self.callee_param_types(cf, cc)[i]
            raise ContractError('assigns: unknown name %s' % e[1])
        if e[0] == 'field':
            bts = self.static_type(cc, cf, e[1])
            ev = SpecEval(self.vc, cc.pkg, {}, None, None)
            path = ev.find_field(bts[1:] if bts.startswith('*') else bts, e[2])
            if not path:
                raise ContractError('assigns: no field %s in %s' % (e[2], bts))
            return path[-1][2]
        # general expression (e.g. a spec function applied to a parameter): evaluate for its type only
        env = {}
        for pn, pt in zip(self.callee_param_names(cf, cc, None), self.callee_param_types(cf, cc)):
            env[pn] = V(self.dummy(self.vc.sort_of(pt)), self.vc.sort_of(pt), pt)
        ev = SpecEval(self.vc, cc.pkg, env, State(self.vc, {}, '0', 0), None)
        try:
            v = ev.eval(e)
        except SpecError as ex_:
            raise ContractError('assigns: cannot type target expression %r: %s' % (e, ex_))
        if not v.ts:
            raise ContractError('assigns: untyped target expression %r' % (e,))
        return v.ts

    def callee_param_names(self, cf, cc, call):
        if cf is not None:
            names = [p['n'] for p in cf.params]
            if cc is not None and cc.recv_name and names:
                names = [cc.recv_name] + names[1:]
            return names
        if isinstance(cc.key, tuple) and cc.key[0] == 'functype':
            return list(cc.param_names or [])
        # interface contract: receiver + declared parameter names
        return [cc.recv_name or 'self'] + list(cc.param_names or [])

    def callee_param_types(self, cf, cc):
        if cf is not None:
            return [p['t'] for p in cf.params]
        its, m = cc.key
        if its == 'functype':
            return list(self.prog.under(m)['params'])
        sig = None
        for mm in self.prog.under(its)['methods']:
            if mm['name'] == m:
                sig = self.prog.td(mm['sig'])
        return [its] + list(sig['params'])

    def call_actuals(self, call):
        if call['invoke']:
            return [call['recv']] + call['args']
        return call['args']

    # ---- call resolution --------------------------------------------------------------------
    def resolve_call(self, call):
        """-> (callee name, contract or None, how) ; how in builtin|model|contract|inline|havoc|dynamic"""
        from . import models
        cs = self.vc.cs
        if call['invoke']:
            its = call['iface']
            m = call['method']
            impl = self.impl_of(its)
            if impl:
                fn = self.prog.method_fn(impl, m)
                if fn:
                    return self.resolve_static(fn)
            ic = cs.ifaces.get((its, m))
            if ic is None:
                # interface type may be embedded/named differently: try by underlying method owner
                for (k_its, k_m), v in cs.ifaces.items():
                    if k_m == m and self.iface_has(its, k_its, m):
                        ic = v
                        break
            if ic is not None:
                return (its + '.' + m, ic, 'contract')
            key = its + '.' + m
            if key in models.MODELS:
                return (key, None, 'model')
            return (key, None, 'havoc')
        fn = call['fn']
        if fn['k'] == 'builtin':
            return (fn['n'], None, 'builtin')
        if 'static' in call:
            return self.resolve_static(call['static'])
        fc = cs.functypes.get(fn.get('t'))
        if fc is not None:
            return ('value of ' + fn['t'], fc, 'contract')
        return (None, None, 'dynamic')

    def impl_of(self, its):
        tc = self.top.contract
        loc = getattr(tc, 'devirt', None) if tc is not None else None
        if loc and its in loc:
            return loc[its]
        return self.vc.cs.impl.get(its)

    def iface_has(self, its, k_its, m):
        a = self.prog.under(its)
        b = self.prog.under(k_its)
        sa = [x['sig'] for x in a.get('methods', []) if x['name'] == m]
        sb = [x['sig'] for x in b.get('methods', []) if x['name'] == m]
        if not (bool(sa) and sa == sb):
            return False
        # the contract's interface must be a sub-set of the invoked interface (embedding)
        am = {x['name'] for x in a.get('methods', [])}
        bm = {x['name'] for x in b.get('methods', [])}
        return bm <= am

    def resolve_static(self, name):
        from . import models
        cs = self.vc.cs
        if name.endswith('.init') and self.f.name.endswith('.init'):
            # a package initialiser running the initialisers of its imports: whatever they do happens before this
            # package's own assignments
            return (name, None, 'havoc')
        cc = cs.funcs.get(name)
        if cc is not None and not cc.inline:
            return (name, cc, 'contract')
        if name in models.MODELS:
            return (name, None, 'model')
        cf = self.prog.funcs.get(name)
        if cf is None:
            return (name, None, 'havoc')
        if cf.synthetic and cf.synthetic.startswith('wrapper') or (cf.synthetic or '').startswith('bound'):
            return (name, cc, 'inline')
        if cc is not None and cc.inline:
            return (name, cc, 'inline')
        if self.auto_inlinable(cf):
            return (name, None, 'inline')
        return (name, None, 'havoc')

    def auto_inlinable(self, cf):
        if not cf.blocks:
            return False
        if cf.loops():
            return False
        n = sum(len(b['instrs']) for b in cf.blocks)
        if n > 400:
            return False
        if cf.recover is not None and cf.recover >= 0:
            return False
        return self.depth < 8

    # ---- block execution ------------------------------------------------------------------------
    def exec_block(self, blk, is_header):
        for ins in blk['instrs']:
            op = ins['op']
            if op == 'Phi' and is_header:
                continue
            m = getattr(self, 'i_' + op, None)
            if m is None:
                raise Unsupported('instruction %s in %s' % (op, short_fn(self.prog, self.f.name)))
            m(ins, blk)

    # terminators
    def set_edge(self, src, dst, cond, st):
        if (src, dst) in self.back:
            self.close_backedge(src, dst, cond, st)
            return
        if (src, dst) in self.edge:
            c0, s0 = self.edge[(src, dst)]
            self.edge[(src, dst)] = (or_(c0, cond), st)
        else:
            self.edge[(src, dst)] = (cond, st)

    def i_Jump(self, ins, blk):
        self.set_edge(blk['idx'], blk['succs'][0], self.reach, self.st)

    def i_If(self, ins, blk):
        c = self.val(ins['cond'])
        t = self.vc.define(self.nm('e%d_%d' % (blk['idx'], blk['succs'][0])), 'Bool', and_(self.reach, c.term))
        e = self.vc.define(self.nm('e%d_%dn' % (blk['idx'], blk['succs'][1])), 'Bool', and_(self.reach, not_(c.term)))
        if blk['succs'][0] == blk['succs'][1]:
            self.set_edge(blk['idx'], blk['succs'][0], self.reach, self.st)
            return
        self.set_edge(blk['idx'], blk['succs'][0], t, self.st)
        self.set_edge(blk['idx'], blk['succs'][1], e, self.st.copy())

    def i_Return(self, ins, blk):
        rs = [self.val(r) for r in ins['results']]
        self.rets.append((self.reach, rs, self.st, ins.get('line', 0), blk['idx']))

    def i_Panic(self, ins, blk):
        self.oblige('panic', 'explicit panic', self.reach, 'false', ['C03'], ins.get('line', 0))

    # defer/recover: supported for one closure deferred in the entry block of the function under verification.
    # A call that may panic forks: the normal continuation, and a panic path on which the deferred closure runs
    # with recover() != nil and control resumes in the function's recover block (go/ssa's f.Recover).
    def i_RunDefers(self, ins, blk):
        if self.deferred:
            self.run_deferred(None)

    def i_Defer(self, ins, blk):
        call = ins['call']
        if blk['idx'] != 0 or self.top is not self or 'static' not in call or call['args'] or self.deferred:
            raise Unsupported('defer in ' + short_fn(self.prog, self.f.name))
        clo = self.op(call['fn'])
        if clo.term not in getattr(self.top, 'closures', {}):
            raise Unsupported('defer of a non-literal closure in ' + short_fn(self.prog, self.f.name))
        self.deferred.append((call['static'], clo))

    def recovers(self):
        """the deferred closure calls recover() in its entry block"""
        if not self.deferred or self.f.recover is None or self.f.recover < 0:
            return False
        cf = self.prog.funcs.get(self.deferred[0][0])
        if cf is None or not cf.blocks:
            return False
        for i in cf.blocks[0]['instrs']:
            if i['op'] == 'Call' and i['call']['fn'].get('k') == 'builtin' and i['call']['fn'].get('n') == 'recover':
                return True
        return False

    def run_deferred(self, recover_val):
        vc = self.vc
        callee, clo = self.deferred[0]
        cf = self.prog.funcs[callee]
        fn_, binds = self.top.closures[clo.term]
        k = vc.site('inl')
        sub = Exec(vc, cf, None, prefix=self.prefix + 'd%d.' % k, depth=self.depth + 1, top=self.top)
        sub.parent = self
        for fv, b in zip(cf.freevars, binds):
            sub.vals[fv['n']] = b
        vc.inlined.add(callee)
        self.top.recover_val = recover_val
        rets = sub.run([], self.st, self.reach)
        self.top.recover_val = None
        if not rets:
            vc.assume('false', self.reach)
            return
        if len(rets) == 1:
            self.st = rets[0][2]
        else:
            self.st = self.merge_states(9500 + k, [r[0] for r in rets], [r[2] for r in rets])

    def fork_panic(self, what, line):
        """a call that may panic inside a function whose deferred closure recovers"""
        vc = self.vc
        p = vc.declare(self.nm('panics'), 'Bool')
        reach0, st0 = self.reach, self.st
        self.reach = vc.define(self.nm('panic$path'), 'Bool', and_(reach0, p))
        self.st = st0.copy()
        rv = vc.declare(self.nm('panic$value'), 'Any')
        vc.assume(not_(eq(rv, 'a.nil')), self.reach)
        self.run_deferred(V(rv, 'Any', 'interface{}'))
        self.panic_edges.append((self.reach, self.st))
        self.reach = vc.define(self.nm('no$panic'), 'Bool', and_(reach0, not_(p)))
        self.st = st0

    def fork_panic_when(self, guard, goal, what, line):
        vc = self.vc
        reach0, st0 = self.reach, self.st
        self.reach = vc.define(self.nm('panic$path'), 'Bool', and_(guard, not_(goal)))
        self.st = st0.copy()
        rv = vc.declare(self.nm('panic$value'), 'Any')
        vc.assume(not_(eq(rv, 'a.nil')), self.reach)
        self.run_deferred(V(rv, 'Any', 'interface{}'))
        self.panic_edges.append((self.reach, self.st))
        # the normal path continues only where the condition holds (what the callers assume next is then guarded by it)
        self.reach = vc.define(self.nm('no$panic'), 'Bool', and_(reach0, or_(not_(guard), goal)))
        self.st = st0

    def i_Go(self, ins, blk):
        raise Unsupported('go statement')

    def i_DebugRef(self, ins, blk):
        if ins.get('isaddr') or not ins.get('name'):
            return
        try:
            v = self.op(ins['x'])
        except Unsupported:
            return
        if isinstance(v, V):
            self.named[ins['name']] = v

    def i_Phi(self, ins, blk):
        conds = []
        vs = []
        for p, e in self.cur_ins:
            for idx, pp in enumerate(blk['preds']):
                if pp == p:
                    break
            conds.append(e[0])
            vs.append(self.val(ins['edges'][blk['preds'].index(p)]))
        if not vs:
            raise Unsupported('phi without incoming edges')
        t = vs[-1].term
        for c, x in zip(reversed(conds[:-1]), reversed(vs[:-1])):
            t = ite(c, x.term, t)
        sort = vs[0].sort
        for x in vs:
            if x.sort != 'Nil':
                sort = x.sort
        if sort == 'Nil':
            sort = self.vc.sort_of(ins['t'])
        self.setv(ins, V(t, sort, ins['t']))
        if ins.get('comment'):
            self.named[ins['comment']] = self.vals[ins['n']]

    # ---- memory -------------------------------------------------------------------------------
    def nilcheck(self, ref, ins, what):
        self.oblige('nil', what, self.reach, '(not (= %s 0))' % ref, ['C03'], ins.get('line', 0))
        self.vc.assume('(not (= %s 0))' % ref, self.reach)

    def i_Alloc(self, ins, blk):
        vc = self.vc
        ets = ins['elem']
        ref = vc.define(self.nm(ins['n']), 'Int', self.st.alloc)
        self.st.alloc = vc.define(self.nm('alloc'), 'Int', '(+ %s 1)' % ref)
        td = self.prog.under(ets)
        if td['k'] == 'struct' and ets != 'time.Time':
            self.zero_struct(ref, ets)
        elif td['k'] == 'array':
            es = vc.sort_of(td['elem'])
            hn, hs = vc.elem_heap(es)
            from .models import const_array
            self.st.set(hn, vc.define(hn, hs, '(store %s %s %s)' % (self.st.get(hn, hs), ref, const_array(vc, es, vc.zero_of_sort(es)))))
        else:
            loc = Loc('cell', ets, ref=ref)
            vc.store(self.st, loc, vc.zero(ets))
        self.vals[ins['n']] = V(ref, 'Int', ins['t'])
        if ins.get('comment'):
            self.named[ins['comment']] = self.vals[ins['n']]

    def zero_struct(self, ref, sts):
        vc = self.vc
        if sts in ('strings.Builder',):
            vc.heap_sorts['B.builder'] = 'Arr:Str'
            self.st.set('B.builder', vc.define('B.builder', 'Arr:Str', '(store %s %s %s)' % (self.st.get('B.builder', 'Arr:Str'), ref, vc.strlit(''))))
            return
        for f in self.prog.struct_fields(sts):
            ftd = self.prog.under(f['type'])
            if ftd['k'] == 'struct' and f['type'] != 'time.Time':
                raise Unsupported('struct-valued field %s.%s' % (sts, f['name']))
            loc = Loc('field', f['type'], ref=ref, stype=sts, fname=f['name'])
            try:
                vc.store(self.st, loc, vc.zero(f['type']))
            except Unsupported:
                raise

    def i_FieldAddr(self, ins, blk):
        x = self.val(ins['x'])
        self.nilcheck(x.term, ins, 'field %s of nil pointer' % ins['fname'])
        fts = self.prog.td(ins['t'])['elem']
        self.vals[ins['n']] = Loc('field', fts, ref=x.term, stype=ins['stype'], fname=ins['fname'])

    def i_IndexAddr(self, ins, blk):
        x = self.val(ins['x'])
        i = self.val(ins['index'])
        xtd = self.prog.under(ins['x']['t'])
        if xtd['k'] == 'ptr' and self.prog.under(xtd['elem'])['k'] == 'array':
            atd = self.prog.under(xtd['elem'])
            self.nilcheck(x.term, ins, 'index of nil array pointer')
            x = V('(mkslice %s 0 %d %d)' % (x.term, atd['len'], atd['len']), 'Slice', None)
            xtd = {'k': 'slice', 'elem': atd['elem']}
        if xtd['k'] != 'slice':
            raise Unsupported('IndexAddr on ' + xtd['k'])
        self.oblige('bounds', 'index in range', self.reach, '(and (<= 0 %s) (< %s (s.len %s)))' % (i.term, i.term, x.term), ['C03'], ins.get('line', 0))
        self.vc.assume('(and (<= 0 %s) (< %s (s.len %s)))' % (i.term, i.term, x.term), self.reach)
        if not i.term.lstrip('-').isdigit() and ('Int', i.term) not in self.vc.inst_terms:
            self.vc.inst_terms.append(('Int', i.term))
        self.vals[ins['n']] = Loc('elem', xtd['elem'], slice=x.term, index=i.term)

    def ref_assume(self, v, st, guard):
        """no dangling references: pointers and backing arrays read from memory are allocated"""
        if v.sort == 'Slice':
            self.vc.assume('(< (s.arr %s) %s)' % (v.term, st.alloc), guard)
        elif v.sort == 'Any' and v.term != 'a.nil':
            self.vc.assume('(and (=> ((_ is a.ptr) %s) (and (<= 0 (a.ptr.v %s)) (< (a.ptr.v %s) %s))) (=> ((_ is a.slice) %s) (< (s.arr (a.slice.v %s)) %s)))'
                           % (v.term, v.term, v.term, st.alloc, v.term, v.term, st.alloc), guard)
        elif v.sort == 'Int' and v.ts and self.prog.types.get(v.ts) and self.prog.under(v.ts)['k'] in ('ptr', 'map'):
            self.vc.assume('(< %s %s)' % (v.term, st.alloc), guard)

    def i_UnOp(self, ins, blk):
        vc = self.vc
        u = ins['uop']
        if u == '*':
            a = self.op(ins['x'])
            if isinstance(a, V):
                # pointer to a cell
                ets = self.prog.td(a.ts)['elem'] if a.ts and self.prog.types.get(a.ts, {}).get('k') == 'ptr' else ins['t']
                etd = self.prog.under(ets)
                if etd['k'] == 'struct' and ets != 'time.Time':
                    raise Unsupported('load of struct value ' + ets)
                self.nilcheck(a.term, ins, 'load through nil pointer')
                a = Loc('cell', ets, ref=a.term)
            v = vc.load(self.st, a)
            self.setv(ins, v)
            v2 = self.vals[ins['n']]
            vc.range_assume(v2, self.reach)
            self.ref_assume(v2, self.st, self.reach)
            return
        x = self.val(ins['x'])
        if u == '!':
            self.setv(ins, V(not_(x.term), 'Bool', ins['t']))
        elif u == '-':
            if x.sort == 'Int':
                self.setv(ins, V(self.wrap('(- %s)' % x.term, ins['t']), 'Int', ins['t']))
            else:
                self.setv(ins, V('(fp.neg %s)' % x.term, x.sort, ins['t']))
        elif u == '^':
            f = vc.ufun('ext.go.not', ['Int'], 'Int')
            self.setv(ins, V('(%s %s)' % (f, x.term), 'Int', ins['t']))
        else:
            raise Unsupported('unary ' + u)

    def i_Store(self, ins, blk):
        a = self.op(ins['addr'])
        v = self.val(ins['val'])
        if isinstance(a, V):
            ets = self.prog.td(a.ts)['elem']
            self.nilcheck(a.term, ins, 'store through nil pointer')
            a = Loc('cell', ets, ref=a.term)
        v = self.adapt(v, a.ts)
        self.frame_check(a, ins)
        self.vc.store(self.st, a, v)

    def adapt(self, v, ts):
        """nil constants take the sort of their destination"""
        if v.sort == 'Nil':
            s = self.vc.sort_of(ts)
            return V(self.vc.zero_of_sort(s), s, ts)
        return v

    def frame_check(self, loc, ins):
        top = self.top
        c = top.contract
        if c is None or c.assigns is None:
            return
        vc = self.vc
        if loc.kind == 'field':
            ref = loc.ref
            hn, _ = vc.field_heap(loc.stype, loc.fname, loc.ts)
        elif loc.kind == 'elem':
            ref = '(s.arr %s)' % loc.slice
            hn, _ = vc.elem_heap(vc.sort_of(loc.ts))
        elif loc.kind == 'cell':
            ref = loc.ref
            hn = None
        else:
            self.oblige('frame', 'store to global %s' % loc.name, self.reach, 'false', c.tags + ['C19'], ins.get('line', 0))
            return
        alts = ['(>= %s %s)' % (ref, top.entry_state.alloc)]
        for (h2, r2) in top.assign_set():
            if h2 == hn:
                alts.append('true' if r2 is None else eq(ref, r2))
        what = loc.fname if loc.kind == 'field' else loc.kind
        self.oblige('frame', 'store to %s is within assigns' % what, self.reach, or_(*alts), ['C19'], ins.get('line', 0))

    def fieldall_heap(self, pkg, ex):
        sts = resolve_type(self.prog, pkg, ('name', ex[0]))
        ev = SpecEval(self.vc, pkg, {}, None, None)
        path = ev.find_field(sts, ex[1])
        if not path or len(path) != 1:
            raise ContractError('assigns any(%s).%s: no such field' % ex)
        st_, fn_, ft_ = path[0]
        return self.vc.field_heap(st_, fn_, ft_)

    def assign_set(self):
        """[(heapname, ref term or None)] for the function's own assigns clause (entry state)"""
        if hasattr(self, '_aset'):
            return self._aset
        out = []
        c = self.contract
        amap = dict(self.entry_env)
        for kind, ex, text in c.assigns or []:
            ev = self.spec(self.entry_env, self.entry_state)
            if kind == 'fieldall':
                out.append((self.fieldall_heap(c.pkg, ex)[0], None))
                continue
            if kind == 'elems' and ex[0] != 'field':
                try:
                    sl = ev.eval(ex)
                except SpecError as e:
                    raise ContractError('%s: assigns %s: %s' % (short_fn(self.prog, self.f.name), text, e))
                if sl.sort != 'Slice':
                    raise ContractError('assigns %s[*]: not a slice' % text)
                en, _ = self.vc.elem_heap(self.vc.sort_of(self.prog.under(sl.ts)['elem']))
                out.append((en, '(s.arr %s)' % sl.term))
                continue
            if ex[0] != 'field':
                raise ContractError('assigns target must be a field access: %s' % text)
            try:
                base = ev.eval(ex[1])
            except SpecError as e:
                raise ContractError('%s: assigns %s: %s' % (short_fn(self.prog, self.f.name), text, e))
            path = ev.find_field(base.ts[1:], ex[2])
            if not path:
                raise ContractError('assigns: no field %s' % text)
            ref = base.term
            for (st_, fn_, ft_) in path[:-1]:
                hn, hs = self.vc.field_heap(st_, fn_, ft_)
                ref = '(select %s %s)' % (self.entry_state.get(hn, hs), ref)
            st_, fn_, ft_ = path[-1]
            if kind == 'elems':
                es = self.vc.sort_of(self.prog.under(ft_)['elem'])
                hn, hs = self.vc.field_heap(st_, fn_, ft_)
                sl = '(select %s %s)' % (self.entry_state.get(hn, hs), ref)
                en, _ = self.vc.elem_heap(es)
                out.append((en, '(s.arr %s)' % sl))
            else:
                hn, _ = self.vc.field_heap(st_, fn_, ft_)
                out.append((hn, ref))
        self._aset = out
        return out

    # ---- arithmetic ------------------------------------------------------------------------------
    def wrap(self, term, ts):
        ik = self.vc.int_kind(ts)
        if ik is None:
            return term
        f = {'int': 'wrap64', 'int64': 'wrap64', 'int32': 'wrap32', 'int16': 'wrap16', 'int8': 'wrap8',
             'uint': 'wrapu64', 'uint64': 'wrapu64', 'uintptr': 'wrapu64', 'uint32': 'wrapu32', 'uint16': 'wrapu16', 'uint8': 'wrapu8'}[ik]
        return '(%s %s)' % (f, term)

    def i_BinOp(self, ins, blk):
        vc = self.vc
        op = ins['bop']
        x = self.val(ins['x'])
        y = self.val(ins['y'])
        if x.sort == 'Nil' and y.sort != 'Nil':
            x = self.adapt(x, y.ts)
        if y.sort == 'Nil' and x.sort != 'Nil':
            y = self.adapt(y, x.ts)
        ts = ins['t']
        line = ins.get('line', 0)
        s = x.sort
        if op in ('==', '!='):
            if s == 'Nil':
                t = 'true'
            elif s in ('F64', 'F32'):
                t = '(fp.eq %s %s)' % (x.term, y.term)
            elif s == 'Any':
                # comparing interface values panics when both hold the same uncomparable dynamic type
                bad = and_('((_ is a.slice) %s)' % x.term, '((_ is a.slice) %s)' % y.term,
                           '(= (a.slice.t %s) (a.slice.t %s))' % (x.term, y.term))
                # reference-like payloads: pointers and channels compare by identity; a map or a function does not compare at
                # all, and neither may a dynamic type this program does not know - only the program's pointer types are safe
                safe = sorted(vc.tid(ts_) for ts_, td_ in self.prog.types.items() if td_.get('k') in ('ptr', 'chan'))
                known = or_(*['(= (a.ptr.t %s) %d)' % (x.term, t_) for t_ in safe]) if safe else 'false'
                bad = or_(bad, and_('((_ is a.ptr) %s)' % x.term, '((_ is a.ptr) %s)' % y.term,
                                    '(= (a.ptr.t %s) (a.ptr.t %s))' % (x.term, y.term), not_(known)))
                if x.term != 'a.nil' and y.term != 'a.nil':
                    self.oblige('ifacecmp', 'comparison of interface values holding uncomparable types', self.reach, not_(bad), ['C03'], line)
                    vc.assume(not_(bad), self.reach)
                t = self.any_eq(x.term, y.term)
            elif s == 'Slice':
                t = eq('(s.arr %s)' % x.term, '(s.arr %s)' % y.term) if False else eq(x.term, y.term)
                # only comparison with nil is legal Go: nil slice <=> arr == 0
                if y.term == '(mkslice 0 0 0 0)':
                    t = eq('(s.arr %s)' % x.term, '0')
                elif x.term == '(mkslice 0 0 0 0)':
                    t = eq('(s.arr %s)' % y.term, '0')
            elif s == 'Str' and (x.term == vc.strlits.get('') or y.term == vc.strlits.get('')):
                # comparison with the empty string: a string is empty iff it has no runes
                other = y.term if x.term == vc.strlits.get('') else x.term
                t = '(= (gs.rlen %s) 0)' % other
            else:
                t = eq(x.term, y.term)
            self.setv(ins, V(t if op == '==' else not_(t), 'Bool', ts))
            return
        if op in ('<', '<=', '>', '>='):
            if s == 'Int':
                t = '(%s %s %s)' % (op, x.term, y.term)
            elif s in ('F64', 'F32'):
                t = '(%s %s %s)' % ({'<': 'fp.lt', '<=': 'fp.leq', '>': 'fp.gt', '>=': 'fp.geq'}[op], x.term, y.term)
            elif s == 'Str':
                lt = vc.ufun('gs.lt', ['Str', 'Str'], 'Bool')
                a, b = (x.term, y.term) if op in ('<', '<=') else (y.term, x.term)
                t = '(%s %s %s)' % (lt, a, b)
                if op in ('<=', '>='):
                    t = or_(t, eq(a, b))
            else:
                raise Unsupported('ordering on sort ' + s)
            self.setv(ins, V(t, 'Bool', ts))
            return
        if s == 'Bool':
            raise Unsupported('boolean binop ' + op)
        if s == 'Str':
            if op == '+':
                from .models import str_concat
                self.setv(ins, V(str_concat(vc, x.term, y.term), 'Str', ts))
                return
            raise Unsupported('string binop ' + op)
        if s in ('F64', 'F32'):
            if op not in ('+', '-', '*', '/'):
                raise Unsupported('float binop ' + op)
            # IEEE arithmetic left uninterpreted (same symbol in code and specification): bit-blasting
            # double division/multiplication does not fit the quick timeout and no claim needs its value
            f = vc.ufun('ext.fp.%s.%s' % ({'+': 'add', '-': 'sub', '*': 'mul', '/': 'div'}[op], s), [s, s], s)
            self.setv(ins, V('(%s %s %s)' % (f, x.term, y.term), s, ts))
            return
        if s == 'Int':
            if op == '*' and not is_lit(x.term) and not is_lit(y.term):
                # non-linear product: left uninterpreted (the same symbol in code and specification)
                t = self.wrap('(%s %s %s)' % (vc.ufun('ext.go.mul', ['Int', 'Int'], 'Int'), x.term, y.term), ts)
            elif op in ('+', '-', '*'):
                t = self.wrap('(%s %s %s)' % (op, x.term, y.term), ts)
            elif op in ('/', '%'):
                self.oblige('divzero', 'integer division by zero', self.reach, '(not (= %s 0))' % y.term, ['C03'], line)
                vc.assume('(not (= %s 0))' % y.term, self.reach)
                if is_lit(y.term):
                    t = '(go.quo %s %s)' % (x.term, y.term) if op == '/' else '(go.rem %s %s)' % (x.term, y.term)
                else:
                    # division by a non-constant: left uninterpreted (the same symbol in code and specification)
                    f = vc.ufun('ext.go.quo' if op == '/' else 'ext.go.rem', ['Int', 'Int'], 'Int')
                    t = '(%s %s %s)' % (f, x.term, y.term)
                if op == '/':
                    t = self.wrap(t, ts)
            elif op in ('<<', '>>'):
                yk = self.vc.int_kind(ins['y']['t'])
                if yk and not yk.startswith('u'):
                    self.oblige('shift', 'negative shift count', self.reach, '(>= %s 0)' % y.term, ['C03'], line)
                    vc.assume('(>= %s 0)' % y.term, self.reach)
                f = vc.ufun('ext.go.shl' if op == '<<' else 'ext.go.shr', ['Int', 'Int'], 'Int')
                t = '(%s %s %s)' % (f, x.term, y.term)
            elif op in ('&', '|', '^', '&^'):
                f = vc.ufun({'&': 'ext.go.and', '|': 'ext.go.or', '^': 'ext.go.xor', '&^': 'ext.go.andnot'}[op], ['Int', 'Int'], 'Int')
                t = '(%s %s %s)' % (f, x.term, y.term)
            else:
                raise Unsupported('int binop ' + op)
            self.setv(ins, V(t, 'Int', ts))
            v = self.vals[ins['n']]
            if op in ('<<', '>>', '&', '|', '^', '&^'):
                vc.range_assume(v, self.reach)
            return
        raise Unsupported('binop %s on sort %s' % (op, s))

    def any_eq(self, a, b):
        # interface equality: same dynamic type and equal payload (floats: IEEE equality)
        fpe = lambda c: and_('((_ is %s) %s)' % (c, a), '((_ is %s) %s)' % (c, b))
        return ite(fpe('a.f64'), and_('(= (a.f64.t %s) (a.f64.t %s))' % (a, b), '(fp.eq (a.f64.v %s) (a.f64.v %s))' % (a, b)),
                   ite(fpe('a.f32'), and_('(= (a.f32.t %s) (a.f32.t %s))' % (a, b), '(fp.eq (a.f32.v %s) (a.f32.v %s))' % (a, b)),
                       eq(a, b)))

    # ---- conversions -----------------------------------------------------------------------------
    def i_ChangeType(self, ins, blk):
        x = self.val(ins['x'])
        self.vals[ins['n']] = V(x.term, self.vc.sort_of(ins['t']) if x.sort != 'Nil' else x.sort, ins['t'])

    def i_ChangeInterface(self, ins, blk):
        x = self.val(ins['x'])
        self.vals[ins['n']] = V(x.term, 'Any', ins['t'])

    def i_MakeInterface(self, ins, blk):
        x = self.val(ins['x'])
        x = V(x.term, x.sort, ins['x']['t'])
        if x.sort == 'Nil':
            self.setv(ins, V('a.nil', 'Any', ins['t']))
            return
        b = box(self.vc, x)
        self.setv(ins, V(b.term, 'Any', ins['t']))

    def i_TypeAssert(self, ins, blk):
        vc = self.vc
        x = self.val(ins['x'])
        ats = ins['asserted']
        atd = self.prog.under(ats)
        if atd['k'] == 'iface':
            if not atd['methods']:
                ok = not_(eq(x.term, 'a.nil'))
            else:
                impls = self.prog.implementors(ats)
                f = vc.ufun('impl.' + san(ats), ['Int'], 'Bool')
                for it in impls:
                    key = (ats, it)
                    if key not in vc.tid_facts:
                        vc.tid_facts.add(key)
                        try:
                            vc.assume('(%s %d)' % (f, vc.tid(it)))
                        except Unsupported:
                            pass    # struct values are never boxed in this code base (states are used through pointers)
                ok = and_(not_(eq(x.term, 'a.nil')), '(%s (a.tid %s))' % (f, x.term))
            val = V(x.term, 'Any', ats)
        else:
            ok = is_type(vc, x, ats)
            val = unbox(vc, x, ats)
        if ins['commaok']:
            okn = vc.define(self.nm(ins['n'] + '$ok'), 'Bool', ok)
            s = val.sort
            zv = vc.zero_of_sort(s)
            vt = vc.define(self.nm(ins['n'] + '$v'), s, ite(okn, val.term, zv))
            self.vals[ins['n']] = [V(vt, s, ats), V(okn, 'Bool', 'bool')]
            if atd['k'] != 'iface':
                vc.range_assume(V(vt, s, ats), self.reach)
                self.ref_assume(V(vt, s, ats), self.st, self.reach)
        else:
            self.oblige('typeassert', 'type assertion to %s' % short_fn(self.prog, ats), self.reach, ok, ['C03'], ins.get('line', 0))
            vc.assume(ok, self.reach)
            self.setv(ins, val)
            if atd['k'] != 'iface':
                v2 = self.vals[ins['n']]
                vc.range_assume(v2, self.reach)
                self.ref_assume(v2, self.st, self.reach)

    def i_Extract(self, ins, blk):
        t = self.op(ins['x'])
        if not isinstance(t, list):
            raise Unsupported('extract from non-tuple')
        v = t[ins['index']]
        self.vals[ins['n']] = V(v.term, v.sort, ins['t'] if v.sort != 'Nil' else v.ts)

    def i_Convert(self, ins, blk):
        from . import models
        models.convert(self, ins)

    def i_Slice(self, ins, blk):
        from . import models
        models.slice_expr(self, ins)

    def i_MakeSlice(self, ins, blk):
        from . import models
        models.make_slice(self, ins)

    def i_Index(self, ins, blk):
        from . import models
        models.index_value(self, ins)

    def i_Lookup(self, ins, blk):
        from . import models
        models.lookup(self, ins)

    def i_MakeMap(self, ins, blk):
        from . import models
        models.make_map(self, ins)

    def i_MapUpdate(self, ins, blk):
        from . import models
        models.map_update(self, ins)

    def i_Range(self, ins, blk):
        from . import models
        models.range_(self, ins)

    def i_Next(self, ins, blk):
        from . import models
        models.next_(self, ins)

    def i_MakeClosure(self, ins, blk):
        vc = self.vc
        ref = vc.define(self.nm(ins['n']), 'Int', self.st.alloc)
        self.st.alloc = vc.define(self.nm('alloc'), 'Int', '(+ %s 1)' % ref)
        self.vals[ins['n']] = V(ref, 'Int', ins['t'])
        self.top.closures = getattr(self.top, 'closures', {})
        self.top.closures[ref] = (ins['fn']['n'], [self.op(b) for b in ins['bindings']])

    def i_Field(self, ins, blk):
        raise Unsupported('Field on struct value')

    # ---- calls ---------------------------------------------------------------------------------------
    def i_Call(self, ins, blk):
        from . import models
        vc = self.vc
        call = ins['call']
        callee, cc, how = self.resolve_call(call)
        line = ins.get('line', 0)
        if how == 'builtin':
            return models.builtin(self, ins, callee)
        if how == 'model':
            vc.external_models.add(callee)
            if self.contract is not None and self.contract.callsites and self.top is self:
                self.callsite_obligations(ins, callee, [self.op(a) for a in self.call_actuals(call)])
            return models.MODELS[callee]['fn'](self, ins)
        actuals = [self.op(a) for a in self.call_actuals(call)]
        self.callsite_obligations(ins, callee, actuals)
        if not call['invoke'] and 'static' not in call and call['fn'].get('k') != 'builtin':
            fv = self.op(call['fn'])
            if isinstance(fv, V) and fv.sort == 'Int':
                self.oblige('nil', 'call of nil function value', self.reach, not_(eq(fv.term, '0')), ['C03'], line)
                vc.assume(not_(eq(fv.term, '0')), self.reach)
        if call['invoke']:
            recv = actuals[0]
            self.oblige('nil', 'method call on nil interface', self.reach, not_(eq(recv.term, 'a.nil')), ['C03'], line)
            vc.assume(not_(eq(recv.term, 'a.nil')), self.reach)
            impl = self.impl_of(call['iface'])
            if impl and how in ('contract', 'inline', 'havoc') and cc is not None and not isinstance(cc.key, tuple) or (impl and how == 'inline'):
                # devirtualised: by assumption (assume-impl: the one implementation), or - for a function-level
                # `devirt` clause - by proof that the receiver holds that type
                if call['iface'] not in vc.cs.impl:
                    self.oblige('devirt', 'receiver holds a %s' % short_fn(self.prog, impl), self.reach, is_type(vc, recv, impl), [], line)
                vc.assume(is_type(vc, recv, impl), self.reach)
                actuals[0] = unbox(vc, recv, impl)
        if how == 'contract':
            return self.call_contract(ins, callee, cc, actuals)
        if how == 'inline':
            return self.call_inline(ins, callee, cc, actuals)
        # unknown callee: everything it could write is havocked, it may panic
        vc.havoc_calls.add(callee or 'dynamic call')
        fork = self.top is self and self.recovers()
        init_dep = bool(callee) and callee.endswith('.init') and self.f.name.endswith('.init')
        if not fork and not init_dep:
            self.oblige('callee-may-panic', 'call of %s (no contract)' % short_fn(self.prog, callee or 'function value'), self.reach, 'false', ['C03'], line)
        self.st.havoc_all()
        a = vc.declare(self.nm('alloc'), 'Int')
        vc.assume('(>= %s %s)' % (a, self.st.alloc), self.reach)
        self.st.alloc = a
        if fork:
            self.fork_panic(callee or 'function value', line)
        self.set_results(ins, self.fresh_results(ins))

    def callsite_obligations(self, ins, callee, actuals):
        c = self.contract
        if self.top is not self or c is None or not c.callsites or not callee:
            return
        cf = self.prog.funcs.get(callee)
        short = cf.short if cf is not None else callee.rsplit('.', 1)[-1]
        ordinal = self.call_ordinal(ins, short)
        if os.environ.get('GOVC_CALLSITES'):
            print('callsite %s %s#%d line %s' % (short_fn(self.prog, self.f.name), short, ordinal, ins.get('line')))
        for (nm, cl) in c.callsites:
            if nm != short and nm != '%s#%d' % (short, ordinal):
                continue
            env = self.param_env()
            env.update(self.named)
            # the caller's own variables stay reachable when a callee parameter has the same name; argN = N-th actual
            for k_, v_ in list(env.items()):
                env.setdefault('caller_' + k_, v_)
            for i_, a_ in enumerate(actuals):
                if isinstance(a_, V):
                    env['arg%d' % i_] = a_
            if cf is not None:
                for p, a in zip(cf.params, actuals):
                    if isinstance(a, V):
                        env[p['n']] = V(a.term, a.sort, p['t'])
            else:
                # interface method: parameter names from the interface contract
                for (its, m), ic in self.vc.cs.ifaces.items():
                    if m == short and callee.startswith(its):
                        names = [ic.recv_name or 'self'] + list(ic.param_names or [])
                        types = self.callee_param_types(None, ic)
                        for pn, pt, a in zip(names, types, actuals):
                            if isinstance(a, V):
                                env[pn] = V(a.term, a.sort, pt)
            ev = self.spec(env, self.st, self.entry_state, self.entry_env)
            g = self.eval_clause(ev, cl, 'callsite requires', 'goal')
            self.oblige('callsite', '%s: %s' % (nm, cl.text), self.reach, g.term, cl.tags, ins.get('line', 0), skolems=ev.skolems)
            # assert-then-assume: later obligations may rely on the fact established here (a cut point)
            ev2 = self.spec(env, self.st, self.entry_state, self.entry_env)
            n0 = len(self.vc.assumes)
            g2 = self.eval_clause(ev2, cl, 'callsite requires', 'assume', self.reach)
            self.vc.assume(g2.term, self.reach)
            if 'cut' in cl.tags:
                self.vc.cut = (n0, self.vc.cur_block)

    def call_ordinal(self, ins, short):
        """position of this call among the calls of the same callee in the function, in order of (line, block, index)"""
        tab = getattr(self, '_call_ordinals', None)
        if tab is None:
            tab = self._call_ordinals = {}
            sites = []
            for b in self.f.blocks:
                for k, i in enumerate(b['instrs']):
                    if i['op'] == 'Call':
                        c = i['call']
                        nm = c.get('static') or (c.get('iface', '') + '.' + c.get('method', '')) if (c.get('static') or c.get('invoke')) else None
                        if nm:
                            cf = self.prog.funcs.get(nm)
                            sh = cf.short if cf is not None else nm.rsplit('.', 1)[-1]
                            sites.append((sh, i.get('line', 0), b['idx'], k, id(i)))
            cnt = {}
            for sh, ln, bi, k, ident in sorted(sites, key=lambda x: (x[0], x[1], x[2], x[3])):
                tab[ident] = cnt.get(sh, 0)
                cnt[sh] = cnt.get(sh, 0) + 1
        return tab.get(id(ins), 0)

    def fresh_results(self, ins, rtypes=None):
        vc = self.vc
        ts = ins['t']
        td = self.prog.td(ts) if ts in self.prog.types else None
        if td is not None and td['k'] == 'tuple':
            elems = td['elems']
        else:
            elems = [ts]
        out = []
        for i, et in enumerate(elems):
            if not et or (et in self.prog.types and self.prog.td(et)['k'] == 'tuple' and not self.prog.td(et)['elems']):
                continue
            s = vc.sort_of(et)
            c = vc.declare(self.nm(ins['n'] + ('$%d' % i if len(elems) > 1 else '')), s)
            v = V(c, s, et)
            vc.range_assume(v, self.reach)
            out.append(v)
        return out

    def set_results(self, ins, rs):
        ts = ins['t']
        td = self.prog.td(ts) if ts in self.prog.types else None
        if td is not None and td['k'] == 'tuple':
            if td['elems']:
                self.vals[ins['n']] = list(rs)
            return
        if rs:
            self.vals[ins['n']] = rs[0]

    def call_contract(self, ins, callee, cc, actuals):
        vc = self.vc
        line = ins.get('line', 0)
        cf = self.prog.funcs.get(callee)
        vc.used_contracts.add(cc.key)
        pnames = self.callee_param_names(cf, cc, ins['call'])
        ptypes = self.callee_param_types(cf, cc)
        env = {}
        copy_back = []
        for pn, pt, a in zip(pnames, ptypes, actuals):
            if isinstance(a, Loc):
                # the address of a field passed to a function under contract: the callee was verified with the pointer
                # referring to a cell of its own; that is this call iff nothing the callee can reach touches the field by
                # name (checked over the static call graph). Then: copy the field into a fresh cell, call, copy it back.
                if a.kind != 'field' or not self.field_untouched_by(callee, a.stype, a.fname):
                    raise Unsupported('address passed to ' + callee)
                ref = vc.define(self.nm('addrcell'), 'Int', self.st.alloc)
                self.st.alloc = vc.define(self.nm('alloc'), 'Int', '(+ %s 1)' % ref)
                cell = Loc('cell', a.ts, ref=ref)
                vc.store(self.st, cell, vc.load(self.st, a))
                copy_back.append((a, cell))
                a = V(ref, 'Int', pt)
            a = self.adapt(a, pt)
            env[pn] = V(a.term, a.sort, pt)
        if cf is not None and cc.recv_name and cf.params:
            env[cf.params[0]['n']] = env[pnames[0]]
        site = 'call%d' % self.vc.site('call')
        pre = self.st
        cname = short_fn(self.prog, callee)
        for i, cl in enumerate(cc.requires):
            ev = SpecEval(vc, cc.pkg, env, pre, None)
            ev.mode = 'goal'
            try:
                g = ev.eval(cl.expr)
            except SpecError as e:
                raise ContractError('%s requires %r: %s' % (cname, cl.text, e))
            self.oblige('pre', '%s requires %s' % (cname, cl.text), self.reach, g.term, cl.tags, line, site='%s.%d' % (site, i), skolems=ev.skolems)
            ev = SpecEval(vc, cc.pkg, env, pre, None)
            ev.mode, ev.guard = 'assume', self.reach
            vc.assume(ev.eval(cl.expr).term, self.reach)
        may_panic_fork = False
        if not cc.nopanic and not cc.trusted:
            if self.top is self and self.recovers():
                may_panic_fork = True
            else:
                self.oblige('callee-may-panic', 'call of %s (contract lacks nopanic)' % cname, self.reach, 'false', ['C03'], line, site=site)
        # recursion: measure must decrease
        same_group = (self.top.contract is not None and cc.recgroup is not None and cc.recgroup == self.top.contract.recgroup)
        if cf is not None and (callee == self.top.f.name or same_group) and self.top.contract is not None:
            tc = self.top.contract
            if tc.assume_terminates:
                pass
            elif tc.decreases is None:
                self.oblige('decreases', 'recursive call without decreases clause', self.reach, 'false', ['C03'], line, site=site)
            else:
                ev0 = SpecEval(vc, tc.pkg, self.top.entry_env, self.top.entry_state, None)
                m0 = [ev0.eval(x) for x in tc.decreases.expr]
                if cc.decreases is None:
                    self.oblige('decreases', 'call into the recursion group without a measure on the callee', self.reach, 'false', ['C03'], line, site=site)
                else:
                    ev1 = SpecEval(vc, cc.pkg, env, pre, None)
                    m1 = [ev1.eval(x) for x in cc.decreases.expr]
                    self.oblige('decreases', 'recursive call: ' + tc.decreases.text, self.reach, lex_less(m1, m0), ['C03'], line, site=site)
        # frame of the caller: callee's assigns must be within ours
        post = pre.copy()
        if cc.assigns is None:
            topc = self.top.contract
            if topc is not None and topc.assigns is not None:
                self.oblige('frame', 'call of %s which may assign anything' % cname, self.reach, 'false', ['C19'], line, site=site)
            post.havoc_all()
        else:
            for kind, ex, text in cc.assigns:
                self.havoc_target(cc, env, kind, ex, text, pre, post, line, site)
        a = vc.declare(self.nm('alloc'), 'Int')
        vc.assume('(>= %s %s)' % (a, pre.alloc), self.reach)
        post.alloc = a
        if may_panic_fork:
            # the panic path sees the callee's possible writes but none of its postconditions
            self.st = post
            self.fork_panic(cname, line)
            post = self.st
        rs = self.fresh_results(ins)
        renv = dict(env)
        if len(rs) >= 1:
            renv['result'] = rs[0]
        if len(rs) >= 2 and rs[-1].ts == 'error':
            renv.setdefault('err', rs[-1])
        for i, r in enumerate(rs):
            renv['result%d' % i] = r
        if cf is not None:
            for nme, r in zip(cf.resultnames, rs):
                if nme and nme != '_':
                    renv.setdefault(nme, r)
        for r in rs:
            self.ref_assume(r, post, self.reach)
        for cl in cc.ensures:
            ev = SpecEval(vc, cc.pkg, renv, post, pre, env)
            ev.mode, ev.guard = 'assume', self.reach
            try:
                g = ev.eval(cl.expr)
            except SpecError as e:
                raise ContractError('%s ensures %r: %s' % (cname, cl.text, e))
            vc.assume(g.term, self.reach)
        self.st = post
        for loc, cell in copy_back:
            self.frame_check(loc, ins)
            vc.store(self.st, loc, vc.load(self.st, cell))
        self.apply_uses(site, renv)
        self.set_results(ins, rs)

    def field_untouched_by(self, fn, stype, fname):
        """no function reachable from fn in the module (static calls, closures, every implementor of an invoked method)
        takes the address of field stype.fname"""
        seen, todo = set(), [fn]
        while todo:
            g = todo.pop()
            if g in seen:
                continue
            seen.add(g)
            gf = self.prog.funcs.get(g)
            if gf is None:
                continue
            for b in gf.blocks:
                for i in b['instrs']:
                    if i['op'] == 'FieldAddr' and i['stype'] == stype and i['fname'] == fname:
                        return False
                    if i['op'] == 'MakeClosure':
                        todo.append(i['fn']['n'])
                    if i['op'] in ('Call', 'Defer'):
                        c = i['call']
                        if c.get('static'):
                            todo.append(c['static'])
                        elif c.get('invoke'):
                            for impl in self.prog.implementors(c['iface']):
                                m = self.prog.method_fn(impl, c['method'])
                                if m:
                                    todo.append(m)
                        elif (c.get('fn') or {}).get('k') != 'builtin':
                            # a function value: anything could be behind it
                            return False
        return True

    def apply_uses(self, site, env):
        pass

    def havoc_target(self, cc, env, kind, ex, text, pre, post, line, site):
        vc = self.vc
        ev = SpecEval(vc, cc.pkg, env, pre, None)
        if kind == 'fieldall':
            hn, hs = self.fieldall_heap(cc.pkg, ex)
            post.set(hn, vc.declare(hn + '$c', hs))
            self.caller_frame(hn, '0', text, line, site)
            return
        if kind == 'elems' and ex[0] != 'field':
            try:
                sl = ev.eval(ex)
            except SpecError as e:
                raise ContractError('assigns %s: %s' % (text, e))
            es = vc.sort_of(self.prog.under(sl.ts)['elem'])
            en, ehs = vc.elem_heap(es)
            tgt_ref = '(s.arr %s)' % sl.term
            fresh = vc.declare(en + '$c', 'Arr:' + es)
            post.set(en, vc.define(en, ehs, '(store %s %s %s)' % (post.get(en, ehs), tgt_ref, fresh)))
            self.caller_frame(en, tgt_ref, text, line, site)
            return
        if ex[0] != 'field':
            raise ContractError('assigns target must be a field access: %s' % text)
        try:
            base = ev.eval(ex[1])
        except SpecError as e:
            raise ContractError('assigns %s: %s' % (text, e))
        path = ev.find_field(base.ts[1:], ex[2])
        if not path:
            raise ContractError('assigns: no field %s' % text)
        ref = base.term
        for (st_, fn_, ft_) in path[:-1]:
            hn, hs = vc.field_heap(st_, fn_, ft_)
            ref = '(select %s %s)' % (pre.get(hn, hs), ref)
        st_, fn_, ft_ = path[-1]
        if kind == 'elems':
            es = vc.sort_of(self.prog.under(ft_)['elem'])
            hn, hs = vc.field_heap(st_, fn_, ft_)
            sl = '(select %s %s)' % (pre.get(hn, hs), ref)
            en, ehs = vc.elem_heap(es)
            tgt_ref = '(s.arr %s)' % sl
            fresh = vc.declare(en + '$c', 'Arr:' + es)
            post.set(en, vc.define(en, ehs, '(store %s %s %s)' % (post.get(en, ehs), tgt_ref, fresh)))
            hname = en
        else:
            hn, hs = vc.field_heap(st_, fn_, ft_)
            fs = vc.sort_of(ft_)
            fresh = vc.declare(hn + '$c', fs)
            post.set(hn, vc.define(hn, hs, '(store %s %s %s)' % (post.get(hn, hs), ref, fresh)))
            fv = V(fresh, fs, ft_)
            vc.range_assume(fv, self.reach)
            tgt_ref = ref
            hname = hn
        self.caller_frame(hname, tgt_ref, text, line, site)

    def caller_frame(self, hname, tgt_ref, text, line, site):
        # caller's own frame
        topc = self.top.contract
        if topc is not None and topc.assigns is not None:
            alts = ['(>= %s %s)' % (tgt_ref, self.top.entry_state.alloc)]
            for (h2, r2) in self.top.assign_set():
                if h2 == hname:
                    alts.append('true' if r2 is None else eq(tgt_ref, r2))
            self.oblige('frame', 'callee assigns %s' % text, self.reach, or_(*alts), ['C19'], line, site='%s.%s' % (site, san(text)))

    def call_inline(self, ins, callee, cc, actuals):
        vc = self.vc
        cf = self.prog.funcs[callee]
        vc.inlined.add(callee)
        if callee in self.inline_stack():
            raise Unsupported('recursive inlining of ' + callee)
        k = self.vc.site('inl')
        sub = Exec(vc, cf, cc, prefix=self.prefix + 'i%d.' % k, depth=self.depth + 1, top=self.top)
        sub.parent = self
        args = []
        for p, a in zip(cf.params, actuals):
            if isinstance(a, Loc):
                # the address of a field or element: the inlined body loads and stores through the location itself
                args.append(a)
                continue
            a = self.adapt(a, p['t'])
            args.append(V(a.term, a.sort, p['t']))
        rets = sub.run(args, self.st, self.reach)
        if not rets:
            # callee never returns (always panics)
            self.vc.assume('false', self.reach)
            self.set_results(ins, self.fresh_results(ins))
            return
        conds = [r[0] for r in rets]
        states = [r[2] for r in rets]
        if len(rets) == 1:
            self.st = states[0]
            rs = rets[0][1]
        else:
            self.st = self.merge_states(9000 + k, conds, states)
            rs = []
            for i in range(len(rets[0][1])):
                vs = [r[1][i] for r in rets]
                sort = [v.sort for v in vs if v.sort != 'Nil']
                sort = sort[0] if sort else 'Nil'
                vs = [self.adapt(v, cf.results[i]) for v in vs]
                t = vs[-1].term
                for c, x in zip(reversed(conds[:-1]), reversed(vs[:-1])):
                    t = ite(c, x.term, t)
                rs.append(V(vc.define(self.nm('%s$r%d' % (ins.get('n', 'call'), i)), vs[0].sort, t), vs[0].sort, cf.results[i]))
        rs = [self.adapt(r, cf.results[i]) for i, r in enumerate(rs)]
        self.set_results(ins, rs)

    def inline_stack(self):
        out = []
        e = self
        while e is not None:
            out.append(e.f.name)
            e = getattr(e, 'parent', None)
        return out


def lex_less(m1, m0):
    """lexicographic m1 < m0 with all components of m0 bounded below by 0"""
    alts = []
    for i in range(len(m0)):
        pre = [eq(m1[j].term, m0[j].term) for j in range(i)]
        alts.append(and_(*(pre + ['(< %s %s)' % (m1[i].term, m0[i].term), '(>= %s 0)' % m0[i].term])))
    return or_(*alts)


def apply_lemma(vc, lm, argvs, guard, site='use', tags=(), line=0):
    """use of a lemma: its requires become obligations at the use site, its ensures are assumed;
    the lemma itself is verified separately (closure of the check)"""
    if len(argvs) != len(lm.params):
        raise ContractError('use %s: wrong number of arguments' % lm.name)
    env = {}
    for (pn, pt), av in zip(lm.params, argvs):
        ts = resolve_type(vc.prog, lm.pkg, pt)
        s = vc.sort_of(ts)
        if av.sort != s:
            raise ContractError('use %s: argument %s has sort %s, expected %s' % (lm.name, pn, av.sort, s))
        env[pn] = V(av.term, s, ts)
    for i, c in enumerate(lm.requires):
        ev = SpecEval(vc, lm.pkg, env, None, None)
        ev.mode = 'goal'
        g = ev.eval(c.expr)
        o = vc.oblige('lemma-pre', '%s.%d' % (site, i), 'use %s requires %s' % (lm.name, c.text), guard, g.term, list(tags), line)
        o.skolems = list(ev.skolems)
        ev = SpecEval(vc, lm.pkg, env, None, None)
        ev.mode, ev.guard = 'assume', guard
        vc.assume(ev.eval(c.expr).term, guard)
    ev = SpecEval(vc, lm.pkg, env, None, None)
    ev.mode, ev.guard = 'assume', guard
    ens = and_(*[ev.eval(c.expr).term for c in lm.ensures])
    vc.assume(imp(guard, ens))
    vc.used_lemmas.add(lm.name)


def verify_function(vc, func, contract):
    """generate all obligations of one function under its contract"""
    prog = vc.prog
    if contract is not None and isinstance(getattr(contract, 'opaque', None), list):
        vc.opaque_recs = set(contract.opaque)
    vc.assume_globalinvs = bool(contract is not None and getattr(contract, 'uses_globals', False))
    ex = Exec(vc, func, contract)
    st = State(vc, {}, None, 0)
    a0 = vc.declare('alloc@0', 'Int', exact=True)
    vc.assume('(>= %s 1)' % a0)
    st.alloc = a0
    args = []
    for p in func.params:
        s = vc.sort_of(p['t'])
        c = vc.declare('p$' + p['n'], s)
        v = V(c, s, p['t'])
        vc.range_assume(v)
        ex.ref_assume(v, st, 'true')
        args.append(v)
    for p, a in zip(func.params, args):
        ex.vals[p['n']] = a
    env = ex.param_env()
    pkg = contract.pkg if contract else func.pkg
    vc.entry_env, vc.entry_state, vc.entry_pkg = env, st.copy(), pkg
    if contract is not None:
        for cl in contract.requires:
            ev = SpecEval(vc, pkg, env, st, None)
            g = ex.eval_clause(ev, cl, 'requires', 'assume')
            vc.assume(g.term)
        if getattr(contract, 'uses_globals', False):
            # package-level invariants (verified on the package initialisers, never written afterwards)
            for gpkg, cl in vc.cs.globalinvs:
                ev = SpecEval(vc, gpkg, {}, st, None)
                g = ex.eval_clause(ev, cl, 'globalinv', 'assume')
                vc.assume(g.term)
                note = 'A9: package-level variables keep the values their initialiser gave them (globalinv of %s: %s); the initialiser is verified, writes by other functions are excluded by a scan' % (gpkg.rsplit('/', 1)[-1], cl.text)
                if note not in vc.cs.assumptions:
                    vc.cs.assumptions.append(note)
    # vacuity guard: the precondition must be satisfiable
    o = vc.oblige('cover', 'pre', 'precondition is satisfiable', 'true', 'true', [], func.line)
    o.expect = 'sat'
    vc.entry_nassume = len(vc.assumes)
    rets = ex.run(args, st, 'true')
    vc.cur_block = None
    if rets:
        o = vc.oblige('cover', 'ret', 'some return is reachable', 'true', or_(*[r[0] for r in rets]), [], func.line)
        o.expect = 'sat'
    for k, (cond, rs, rst, line, bidx) in enumerate(rets):
        vc.cur_block = bidx
        renv = dict(env)
        rs = [ex.adapt(r, func.results[i]) for i, r in enumerate(rs)]
        rs = [V(r.term, r.sort, func.results[i]) for i, r in enumerate(rs)]
        if len(rs) >= 1:
            renv['result'] = rs[0]
        if len(rs) >= 2 and func.results[-1] == 'error':
            renv.setdefault('err', rs[-1])
        for i, r in enumerate(rs):
            renv['result%d' % i] = r
        for nme, r in zip(func.resultnames, rs):
            if nme and nme != '_':
                renv.setdefault(nme, r)
        if contract is None:
            continue
        for (site, lname, largs, ucond) in contract.uses:
            if site not in ('all', 'exit'):
                continue
            if lname not in vc.cs.lemmas:
                raise ContractError('use of unknown lemma %s' % lname)
            evu = SpecEval(vc, pkg, renv, rst, st, env)
            try:
                avs = [evu.eval(a) for a in largs]
            except SpecError as e:
                raise ContractError('%s: use %s: %s' % (short_fn(prog, func.name), lname, e))
            ug = cond
            if ucond is not None:
                ug = vc.define('usecond', 'Bool', and_(cond, evu.eval(ucond).term))
            apply_lemma(vc, vc.cs.lemmas[lname], avs, ug, 'ret%d.use.%s' % (k, lname), contract.tags, line)
        for i, cl in enumerate(contract.ensures):
            if 'ghostdef' in cl.tags:
                # definition of a ghost (uninterpreted) view at construction time: assumed by callers, not provable
                note = 'ghost definition (assumed): %s ensures %s' % (short_fn(prog, func.name), cl.text)
                if note not in vc.cs.assumptions:
                    vc.cs.assumptions.append(note)
                continue
            ev = SpecEval(vc, pkg, renv, rst, st, env)
            ev.entry_alloc = a0
            ev.hdr = getattr(ex, 'headers', {})
            g = ex.eval_clause(ev, cl, 'ensures', 'goal')
            o = vc.oblige('post', 'ret%d.%d' % (k, i), cl.text, cond, g.term, cl.tags + [t for t in contract.tags if t not in cl.tags], line)
            o.skolems = list(ev.skolems)
    return ex


def verify_lemma(vc, lm):
    """obligations of a lemma: ensures under requires, with the induction hypothesis instantiated at the
    `induction` argument tuples (each guarded by its requires and a strictly smaller, non-negative measure)"""
    prog = vc.prog
    vc.lemma_limit = lm.order
    env = {}
    for pn, pt in lm.params:
        ts = resolve_type(prog, lm.pkg, pt)
        s = vc.sort_of(ts)
        c = vc.declare('l$' + pn, s)
        v = V(c, s, ts)
        vc.range_assume(v)
        env[pn] = v
        if s == 'Int':
            vc.inst_terms.append(('Int', c))
    ev = SpecEval(vc, lm.pkg, env, None, None)
    ev.mode = 'assume'
    for cl in lm.requires:
        vc.assume(ev.eval(cl.expr).term)
    ev.mode = None
    o = vc.oblige('cover', 'pre', 'lemma precondition is satisfiable', 'true', 'true', lm.tags, 0)
    o.expect = 'sat'
    if lm.induction:
        if lm.decreases is None:
            raise ContractError('lemma %s: induction without decreases' % lm.name)
        m0 = [ev.eval(x) for x in lm.decreases.expr]
        for args in lm.induction:
            if len(args) != len(lm.params):
                raise ContractError('lemma %s: induction instance has wrong arity' % lm.name)
            env2 = {}
            for (pn, pt), a in zip(lm.params, args):
                av = ev.eval(a)
                env2[pn] = V(av.term, env[pn].sort, env[pn].ts)
                if av.sort == 'Int' and ('Int', av.term) not in vc.inst_terms:
                    vc.inst_terms.append(('Int', av.term))
            ev2 = SpecEval(vc, lm.pkg, env2, None, None)
            req = [ev2.eval(c.expr).term for c in lm.requires]
            m1 = [ev2.eval(x) for x in lm.decreases.expr]
            ihg = and_(lex_less(m1, m0), *req)
            ev2.mode, ev2.guard = 'assume', ihg
            ens = [ev2.eval(c.expr).term for c in lm.ensures]
            vc.assume(imp(ihg, and_(*ens)))
    for i, cl in enumerate(lm.ensures):
        evg = SpecEval(vc, lm.pkg, env, None, None)
        evg.mode = 'goal'
        g = evg.eval(cl.expr)
        o = vc.oblige('lemma', 'ens%d' % i, cl.text, 'true', g.term, lm.tags, 0)
        o.skolems = list(evg.skolems)
