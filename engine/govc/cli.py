"""govc command line: dev (func), check, replay, selftest."""
import argparse
import json
import os
import sys
import time

from . import driver
from .vcgen import Unsupported, ContractError, short_fn
from .spec import SpecError


def cmd_func(args):
    wd = driver.Workdir()
    try:
        prog, cs = driver.load(args.repo, wd.path)
        names = [n for n in prog.funcs if args.pattern in n]
        if args.contracted:
            names = [n for n in names if n in cs.funcs]
        names += ['lemma ' + n for n in cs.lemmas if args.pattern in 'lemma ' + n and not cs.lemmas[n].axiom]
        bad = 0
        for n in sorted(names):
            t0 = time.time()
            try:
                vc = driver.gen_lemma(prog, cs, n[6:]) if n.startswith('lemma ') else driver.gen(prog, cs, n)
            except (Unsupported, ContractError, SpecError) as e:
                print('%-60s %s: %s' % (short_fn(prog, n), type(e).__name__, e))
                bad += 1
                continue
            obls = vc.obls
            if args.kind:
                obls = [o for o in obls if o.kind in args.kind.split(',')]
            res = driver.discharge(vc, obls, wd.path, timeout=args.timeout, fuel=args.fuel)
            ok = 0
            for o in obls:
                r = res[o.name]
                good = r['status'] == o.expect or (o.expect == 'sat' and r['status'] not in ('sat', 'unsat'))
                ok += good
                if not good or args.verbose:
                    print('  %-8s %-6s %5.2fs %s  (line %d)%s' % (r['status'], r['solver'], r['time'], o.name, o.line,
                                                                 '' if good else '   <== FAILED'))
                    if not good:
                        print('      tried:', r['tried'])
                    if not good and args.keep:
                        print('      query:', r['path'])
            print('%-60s %d/%d obligations  %.1fs' % (short_fn(prog, n), ok, len(obls), time.time() - t0))
            if ok != len(obls):
                bad += 1
        return 1 if bad else 0
    finally:
        if not args.keep:
            wd.cleanup()


def main(argv):
    ap = argparse.ArgumentParser(prog='govc')
    sub = ap.add_subparsers(dest='cmd')
    f = sub.add_parser('func')
    f.add_argument('pattern')
    f.add_argument('--repo', default=driver.REPO)
    f.add_argument('--timeout', type=int, default=10)
    f.add_argument('--fuel', type=int, default=1)
    f.add_argument('--kind', default='')
    f.add_argument('-v', '--verbose', action='store_true')
    f.add_argument('--keep', action='store_true')
    f.add_argument('--contracted', action='store_true')
    c = sub.add_parser('check')
    c.add_argument('--property', required=True)
    c.add_argument('--tier', default=os.environ.get('VERIF_TIER', 'quick'))
    c.add_argument('--repo', default=driver.REPO)
    r = sub.add_parser('replay')
    r.add_argument('path')
    s = sub.add_parser('selftest')
    s.add_argument('--quick', action='store_true')
    s.add_argument('--families', action='store_true', help='run the bounded stand-in of every family on the unchanged tree: each must pass')
    args = ap.parse_args(argv)
    if args.cmd == 'func':
        return cmd_func(args)
    if args.cmd == 'check':
        from .check import cmd_check
        return cmd_check(args)
    if args.cmd == 'replay':
        from .check import cmd_replay
        return cmd_replay(args)
    if args.cmd == 'selftest':
        from .check import cmd_selftest
        return cmd_selftest(args)
    ap.print_help()
    return 2
