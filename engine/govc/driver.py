"""Loading /repo, generating and discharging obligations."""
import os
import shutil
import subprocess
import sys
import tempfile
import time
from concurrent.futures import ThreadPoolExecutor

from .ir import Program
from .spec import ContractSet, SpecError
from .vcgen import VC, Unsupported, ContractError, short_fn
from .exec import verify_function, verify_lemma
from . import smt

VERIF = os.environ.get('VERIF_ROOT', '/verif')
REPO = os.environ.get('VERIF_REPO', '/repo')
GOENV = {'GOFLAGS': '-mod=mod', 'GOPROXY': 'off', 'GOSUMDB': 'off', 'GOTOOLCHAIN': 'local'}


def goenv():
    e = dict(os.environ)
    e.update(GOENV)
    return e


class Workdir:
    def __init__(self):
        base = os.environ.get('VERIF_SCRATCH') or os.path.join(VERIF, '.scratch')
        os.makedirs(base, exist_ok=True)
        self.path = tempfile.mkdtemp(prefix='run-', dir=base)

    def cleanup(self):
        shutil.rmtree(self.path, ignore_errors=True)


def export_ssa(repo, wd):
    """run ssaexport on the current working tree of repo with tag verif and a private modfile"""
    shutil.copy(os.path.join(repo, 'go.mod'), os.path.join(wd, 'go.mod'))
    shutil.copy(os.path.join(repo, 'go.sum'), os.path.join(wd, 'go.sum'))
    out = os.path.join(wd, 'ssa.json')
    exe = os.path.join(VERIF, 'bin', 'ssaexport')
    p = subprocess.run([exe, '-dir', repo, '-modfile', os.path.join(wd, 'go.mod'), '-out', out, '-tags', 'verif'],
                       capture_output=True, text=True, env=goenv())
    if p.returncode != 0:
        raise RuntimeError('ssaexport failed (the tree does not build?):\n' + p.stderr + p.stdout)
    return out


def load(repo=REPO, wd=None):
    own = None
    if wd is None:
        own = Workdir()
        wd = own.path
    t0 = time.time()
    path = export_ssa(repo, wd)
    prog = Program(path)
    prog.load_time = time.time() - t0
    cs = ContractSet()
    for cf in prog.contract_files:
        cs.parse_file(prog, cf['pkg'], cf['text'], cf['file'])
    return prog, cs


def gen(prog, cs, fname, opts=None):
    func = prog.funcs[fname]
    vc = VC(prog, cs, fname, opts)
    contract = cs.funcs.get(fname)
    verify_function(vc, func, contract)
    return vc


def gen_iface_impl(prog, cs, fname, ikey):
    """the implementation fname checked against the contract of the interface method it implements
    (behavioural subtyping): interface requires/ensures/assigns + the function's own loop invariants"""
    import copy
    ic = cs.ifaces[ikey]
    own = cs.funcs.get(fname)
    fc = copy.copy(ic)
    fc.key = fname
    if own is not None and own.requires:
        # the implementation's own precondition (its representation invariant, configuration) replaces the
        # interface's: that the caller's state establishes it is assumption A4 (listed in the evidence)
        fc.requires = own.requires
        fc.recv_name = own.recv_name
        fc.param_names = ic.param_names
        fc.alias_recv = ic.recv_name
        note = 'A4: when called through %s.%s, %s is assumed to be in the state its own contract requires (%s)' % (
            ikey[0].rsplit('/', 1)[-1], ikey[1], fname.replace(prog.module + '/', ''), '; '.join(c.text for c in own.requires if c.text not in [x.text for x in ic.requires]))
        if note not in cs.assumptions:
            cs.assumptions.append(note)
    fc.loops = own.loops if own is not None else {}
    fc.uses = own.uses if own is not None else []
    fc.decreases = own.decreases if own is not None else None
    if own is not None:
        # proof aids of the implementation's own contract
        fc.devirt = getattr(own, 'devirt', None)
        fc.callsites = own.callsites
        fc.opaque = own.opaque
    fc.tags = list(ic.tags)
    func = prog.funcs[fname]
    vc = VC(prog, cs, fname)
    vc.label = 'iface %s.%s' % (ikey[0].rsplit('/', 1)[-1], ikey[1])
    ex = verify_function(vc, func, fc)
    for o in vc.obls:
        o.name = o.name.replace('#', '#[as %s]' % vc.label, 1)
    return vc


def gen_functype_impl(prog, cs, fname, fts):
    """a function that is used as a value of the named func type fts, checked against the functype contract
    (its own contract, if any, supplies requires, loop invariants and measure)"""
    import copy
    ic = cs.functypes[fts]
    own = cs.funcs.get(fname)
    fc = copy.copy(ic)
    fc.key = fname
    fc.recv_name = None
    func = prog.funcs[fname]
    fc.param_names = None
    if own is not None and own.requires:
        fc.requires = own.requires
    fc.loops = own.loops if own is not None else {}
    fc.uses = own.uses if own is not None else []
    fc.decreases = own.decreases if own is not None else None
    fc.callsites = own.callsites if own is not None else []
    fc.tags = list(ic.tags)
    # the functype contract names the parameters its own way: alias them to the function's
    fc.param_alias = dict(zip(ic.param_names or [], [p['n'] for p in func.params]))
    vc = VC(prog, cs, fname)
    vc.label = 'functype %s' % fts.rsplit('/', 1)[-1]
    verify_function(vc, func, fc)
    for o in vc.obls:
        o.name = o.name.replace('#', '#[as %s]' % vc.label, 1)
    return vc


def gen_lemma(prog, cs, name):
    lm = cs.lemmas[name]
    vc = VC(prog, cs, 'lemma ' + name)
    verify_lemma(vc, lm)
    return vc


def discharge(vc, obls, wd, timeout=10, fuel=1, jobs=16, order=('z3new', 'z3', 'cvc5')):
    results = {}

    def one(o):
        q = vc.query(o, fuel)
        r = smt.solve(q, wd, vc.fname + '##' + o.name, timeout, order)
        return o, r

    # query() mutates vc (rec unfolding): build texts sequentially, solve in parallel
    texts = [(o, vc.query(o, fuel)) for o in obls]

    def run(item):
        o, q = item
        if o.expect == 'unsat':
            ql = vc.query(o, fuel, noq=bool(vc.quant_defs), lite=True)
            if ql is not None:
                r0 = smt.solve(ql, wd, vc.fname + '##lite##' + o.name, min(timeout, 4), order=('z3new',))
                if r0['status'] == 'unsat':
                    r0['variant'] = 'goal-relevant unfoldings only'
                    return o, r0
        if vc.quant_defs and o.expect == 'unsat':
            r0 = smt.solve(vc.query(o, fuel, noq=True), wd, vc.fname + '##noq##' + o.name, timeout, order=('z3new',))
            if r0['status'] == 'unsat':
                return o, r0
        return o, smt.solve(q, wd, vc.fname + '##' + o.name, timeout, order)

    with ThreadPoolExecutor(max_workers=jobs) as ex:
        for o, r in ex.map(run, texts):
            results[o.name] = r
    return results
