import sys
from .cli import main

sys.exit(main(sys.argv[1:]))
