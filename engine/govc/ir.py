"""IR loader: the JSON written by ssaexport (go/ssa of /repo's working tree)."""
import json


class Program:
    def __init__(self, path):
        with open(path) as f:
            d = json.load(f)
        self.module = d['module']
        self.types = d['types']
        for ts, td in list(self.types.items()):
            if td.get('k') == 'alias' and td.get('under') == ts:
                self.types[ts] = {'k': 'iface', 'methods': []}
        self.funcs = {n: Func(self, n, fd) for n, fd in d['funcs'].items()}
        self.named = d['named']
        self.globals = d['globals']
        self.contract_files = d['contracts']
        self.consts = d.get('consts', {})
        self.pkgs = d.get('pkgs', [])
        self._tid = {}
        # short name index for type resolution in contracts: "pkgshort.Name" and full
        self.short_named = {}
        for ts in self.named:
            pkg, _, nm = ts.rpartition('.')
            short = pkg.rsplit('/', 1)[-1]
            self.short_named.setdefault(short + '.' + nm, []).append(ts)
        for ts, td in self.types.items():
            if td.get('k') == 'named' and ts not in self.named:
                pkg = td.get('pkg', '')
                short = pkg.rsplit('/', 1)[-1]
                self.short_named.setdefault(short + '.' + td['name'], []).append(ts)

    # ---- type helpers -------------------------------------------------
    def td(self, ts):
        return self.types[ts]

    def under(self, ts):
        """underlying type descriptor (resolving named and alias)"""
        td = self.types[ts]
        seen = 0
        while td['k'] in ('named', 'alias') and seen < 10:
            td = self.types[td['under']]
            seen += 1
        return td

    def under_name(self, ts):
        td = self.types[ts]
        seen = 0
        while td['k'] in ('named', 'alias') and seen < 10:
            ts = td['under']
            td = self.types[ts]
            seen += 1
        return ts

    def type_id(self, ts):
        """stable small integer per dynamic type (assigned in order of first use, then
        pinned by sorted order at emission)"""
        if ts not in self._tid:
            self._tid[ts] = len(self._tid) + 1
        return self._tid[ts]

    def struct_fields(self, ts):
        td = self.under(ts)
        assert td['k'] == 'struct', (ts, td)
        return td['fields']

    def method_fn(self, recv_ts, mname):
        """static function implementing method mname for receiver type recv_ts (T or *T)"""
        base = recv_ts[1:] if recv_ts.startswith('*') else recv_ts
        nd = self.named.get(base)
        if not nd:
            return None
        ms = nd.get('methods:' + recv_ts, {})
        m = ms.get(mname)
        return m['fn'] if m else None

    def wrapper_target(self, fn):
        """the method a synthetic promotion wrapper forwards to (its only static call), or None"""
        f = self.funcs.get(fn)
        if f is None:
            return None
        calls = [i for b in f.blocks for i in b['instrs'] if i['op'] == 'Call']
        if len(calls) != 1 or not calls[0]['call'].get('static'):
            return None
        return calls[0]['call']['static']

    def functype_values(self, fts):
        """module functions that are converted to the named func type fts somewhere in the module"""
        out = set()
        for f in self.funcs.values():
            for b in f.blocks:
                for i in b['instrs']:
                    if i['op'] == 'ChangeType' and i.get('t') == fts and i['x'].get('k') == 'func' and i['x']['n'] in self.funcs:
                        out.add(i['x']['n'])
        return sorted(out)

    def implementors(self, iface_ts):
        """concrete named types (T or *T) of the module that implement iface_ts"""
        itd = self.under(iface_ts)
        need = {m['name']: m['sig'] for m in itd.get('methods', [])}
        out = []
        for base, nd in self.named.items():
            for key, ms in nd.items():
                if not key.startswith('methods:'):
                    continue
                recv = key[len('methods:'):]
                if self.under(base)['k'] == 'iface':
                    continue
                if all(n in ms and ms[n]['sig'] == s for n, s in need.items()):
                    out.append(recv)
        # prefer value type if both T and *T implement: an interface value holds exactly one of them
        return sorted(out)


class Func:
    def __init__(self, prog, name, d):
        self.prog = prog
        self.name = name
        self.d = d
        self.pkg = d.get('pkg')
        self.params = d['params']
        self.results = d['results']
        self.resultnames = d['resultnames']
        self.blocks = d['blocks']
        self.recover = d['recover']
        self.synthetic = d['synthetic']
        self.freevars = d['freevars']
        self.file = d.get('file')
        self.line = d.get('line')
        self._loops = None

    @property
    def short(self):
        return self.d['short']

    def key(self):
        """contract key: pkgshort.(Recv).Name or pkgshort.Name"""
        return self.name

    # ---- CFG analysis ---------------------------------------------------
    def dominates(self, a, b):
        """block a dominates block b"""
        while b != -1:
            if a == b:
                return True
            b = self.blocks[b]['idom']
        return False

    def reachable(self):
        seen = set()
        st = [0]
        while st:
            b = st.pop()
            if b in seen:
                continue
            seen.add(b)
            st.extend(self.blocks[b]['succs'])
        return seen

    def loops(self):
        """natural loops: list of dicts {header, body(set), backedges[(src,hdr)], ordinal}
        ordinal = order of headers by block index (the contract key)."""
        if self._loops is not None:
            return self._loops
        reach = self.reachable()
        heads = {}
        for b in self.blocks:
            if b['idx'] not in reach:
                continue
            for s in b['succs']:
                if self.dominates(s, b['idx']):
                    heads.setdefault(s, []).append(b['idx'])
        loops = []
        for h in sorted(heads):
            body = {h}
            st = list(heads[h])
            while st:
                x = st.pop()
                if x in body:
                    continue
                body.add(x)
                st.extend(p for p in self.blocks[x]['preds'] if p in reach)
            loops.append({'header': h, 'body': body, 'backedges': [(s, h) for s in heads[h]]})
        for i, l in enumerate(loops):
            l['ordinal'] = i
        # irreducible check: every back edge (retreating edge in DFS) must target a dominator
        self._loops = loops
        return loops

    def topo_order(self):
        """reverse postorder of the CFG with back edges removed"""
        back = set()
        for l in self.loops():
            back.update(l['backedges'])
        seen = set()
        order = []

        def dfs(b):
            stack = [(b, iter(self.blocks[b]['succs']))]
            seen.add(b)
            while stack:
                node, it = stack[-1]
                adv = False
                for s in it:
                    if (node, s) in back or s in seen:
                        continue
                    seen.add(s)
                    stack.append((s, iter(self.blocks[s]['succs'])))
                    adv = True
                    break
                if not adv:
                    order.append(node)
                    stack.pop()
        dfs(0)
        if self.recover is not None and self.recover >= 0 and self.recover not in seen:
            dfs(self.recover)
        order.reverse()
        return order
