"""Verification-condition generator over the exported go/ssa of /repo.

One VC object per function (or lemma) under verification. Blocks are processed in topological
order of the CFG with back edges cut at loop headers (invariants required there); every block has
a reachability literal, heap arrays are versioned per block and merged with ite at joins. Each
obligation becomes one SMT query: definitions + the assumptions generated *before* it + negated goal.
"""
import re
from .smt import V, num, sym, and_, or_, not_, imp, ite, eq, smt_sort, INT_RANGES, SEQ_DECL
from .spec import SpecError, resolve_type


class Unsupported(Exception):
    pass


class ContractError(Exception):
    pass


MAXLEN = 2 ** 40


class Loc:
    """an address: field of an object, element of a slice, heap cell, global variable"""
    __slots__ = ('kind', 'ref', 'stype', 'fname', 'ts', 'slice', 'index', 'name')

    def __init__(self, kind, ts, ref=None, stype=None, fname=None, slice=None, index=None, name=None):
        self.kind = kind
        self.ts = ts
        self.ref = ref
        self.stype = stype
        self.fname = fname
        self.slice = slice
        self.index = index
        self.name = name


class State:
    """heap arrays (name -> current term) + allocation watermark"""

    def __init__(self, vc, heap=None, alloc=None, epoch=0):
        self.vc = vc
        self.heap = dict(heap or {})
        self.alloc = alloc
        self.epoch = epoch

    def copy(self):
        return State(self.vc, self.heap, self.alloc, self.epoch)

    def get(self, name, sort):
        if name not in self.heap:
            return self.vc.heap_base(name, sort, self.epoch)
        return self.heap[name]

    def set(self, name, term):
        self.heap[name] = term

    def havoc_all(self):
        self.heap = {}
        self.epoch = self.vc.new_epoch()


class Obl:
    def __init__(self, name, kind, guard, goal, nassume, tags, line, fn, clause=''):
        self.name = name
        self.kind = kind
        self.guard = guard
        self.goal = goal
        self.nassume = nassume
        self.tags = tags
        self.line = line
        self.fn = fn
        self.clause = clause
        self.expect = 'unsat'   # cover obligations expect 'sat'
        self.skolems = []
        self.ninst = 0
        self.block = None
        self.cut = None
        self.inputs = None      # replay info


def short_fn(prog, name):
    if name.startswith('lemma '):
        return name
    return name.replace(prog.module + '/', '').replace(prog.module, '')


def san(s):
    return re.sub(r'[^A-Za-z0-9_.]', '_', s)


class VC:
    def __init__(self, prog, contracts, fname, opts=None):
        self.prog = prog
        self.cs = contracts
        self.fname = fname
        self.opts = opts or {}
        self.lines = []          # declarations and definitions in creation order
        self.assumes = []
        self.obls = []
        self.counter = 0
        self.heap_sorts = {}     # heap array name -> element sort
        self.base_decl = set()
        self.epochs = 0
        self.seq_sorts = set()
        self.rec_decl = set()
        self.rec_insts = {}      # (name, argterms) -> (level, argVs)
        self.opaque_recs = set()
        self.strlits = {}
        self.site_counters = {}
        self.inlined = set()
        self.used_contracts = set()
        self.external_models = set()
        self.havoc_calls = set()
        self.waived_panics = []
        self.type_ids = {}
        self.ufuns = {}
        self.notes = []
        self.quant_axioms = []
        self.tid_facts = set()
        self.def_memo = {}
        self.entry_nassume = 0
        self.cut = None
        self.quant_defs = {}
        self.str_facts = set()
        self.assume_block = {}
        self.cur_block = None
        self.reach_sets = None
        self.qas = []
        self.qa_cache = {}
        self.inst_terms = []
        self.unfold_cache = {}
        self.used_lemmas = set()
        self.lemma_limit = None
        self.range_memo = set()

    # ---- symbols ---------------------------------------------------------------
    def fresh(self, base):
        self.counter += 1
        return '%s!%d' % (base, self.counter)

    def declare(self, base, sort, exact=False):
        n = base if exact else self.fresh(base)
        s = sym(n)
        self.lines.append('(declare-const %s %s)' % (s, self.ssort(sort)))
        return s

    def define(self, base, sort, term, exact=False):
        # short terms are not worth a definition
        if len(term) < 24 and ' ' not in term:
            return term
        key = (sort, term)
        if key in self.def_memo:
            return self.def_memo[key]
        n = base if exact else self.fresh(base)
        s = sym(n)
        self.lines.append('(define-fun %s () %s %s)' % (s, self.ssort(sort), term))
        self.def_memo[key] = s
        return s

    def define_quant(self, term):
        if term in self.quant_defs:
            return self.quant_defs[term]
        n = sym(self.fresh('qa$def'))
        self.quant_defs[term] = n
        self.lines.append(('quantdef', n, term))
        return n

    def ssort(self, sort):
        if sort.startswith('Seq:'):
            self.need_seq(sort[4:])
        if sort.startswith('Arr:Seq:'):
            self.need_seq(sort[8:])
        return smt_sort(sort)

    def need_seq(self, es):
        if es not in self.seq_sorts:
            self.seq_sorts.add(es)

    def ufun(self, name, argsorts, ressort):
        if name not in self.ufuns:
            self.ufuns[name] = '(declare-fun %s (%s) %s)' % (sym(name), ' '.join(self.ssort(a) for a in argsorts), self.ssort(ressort))
            if name == 'gs.lt':
                # Go's string order (bytewise lexicographic) is a strict total order: part of the trusted string theory
                f, S = sym(name), self.ssort('Str')
                self.quant_axioms.append('(forall ((a %s)) (! (not (%s a a)) :pattern ((%s a a))))' % (S, f, f))
                self.quant_axioms.append('(forall ((a %s) (b %s) (c %s)) (! (=> (and (%s a b) (%s b c)) (%s a c)) :pattern ((%s a b) (%s b c))))' % (S, S, S, f, f, f, f, f))
                self.quant_axioms.append('(forall ((a %s) (b %s)) (! (or (%s a b) (= a b) (%s b a)) :pattern ((%s a b))))' % (S, S, f, f, f))
        return sym(name)

    def heap_base(self, name, sort, epoch):
        n = '%s@%d' % (name, epoch)
        if n not in self.base_decl:
            self.base_decl.add(n)
            self.lines.append('(declare-const %s %s)' % (sym(n), self.ssort(sort)))
        return sym(n)

    def new_epoch(self):
        self.epochs += 1
        return self.epochs

    def assume(self, term, guard='true'):
        t = imp(guard, term)
        if t != 'true':
            self.assumes.append(t)
            self.assume_block[len(self.assumes) - 1] = self.cur_block if guard != 'true' else None

    def relevant(self, idx, obl):
        """path slicing: an assumption made in block B (guarded by B's reachability) can only matter for an
        obligation in block O if B reaches O in the CFG; dropping the others is sound"""
        b = self.assume_block.get(idx)
        if b is None or obl.block is None or self.reach_sets is None:
            return True
        if obl.cut is not None:
            # a cut point (assert-then-assume of a summarising fact) hides the guarded assumptions made between
            # the function entry and the cut from the obligations that come after it
            cut_idx, cut_block = obl.cut
            if self.entry_nassume <= idx < cut_idx and obl.block in self.reach_sets.get(cut_block, ()):
                return False
        return obl.block in self.reach_sets.get(b, ())

    def assume_forall(self, guard, fn, nvars=1, sort='Int'):
        """universally quantified fact given as a Python closure over index terms (or, with `sort`, over terms of that
        sort: map keys); used through ground instantiation only (goal skolems, their neighbours, index / key terms)"""
        self.register_qa({'vars': [('i%d' % k, sort, 'int' if sort == 'Int' else None) for k in range(nvars)], 'fn': fn, 'guard': guard})

    def register_qa(self, qa):
        qa['id'] = len(self.qas)
        self.qas.append(qa)
        self.assumes.append(('qa', qa))
        self.assume_block[len(self.assumes) - 1] = self.cur_block if qa.get('guard', 'true') != 'true' else None

    def instantiate_qas(self, obl):
        """ground instances of assumed universal clauses at the goal's skolem constants and at index terms"""
        from .speceval import SpecEval
        import itertools
        out = []
        cands = {}
        for v in getattr(obl, 'skolems', []):
            cands.setdefault(v.sort, []).append(v.term)
        for v in getattr(obl, 'skolems', []):
            if v.sort == 'Int':
                cands[v.sort].append('(- %s 1)' % v.term)
                cands[v.sort].append('(+ %s 1)' % v.term)
                cands[v.sort].append('(- %s 2)' % v.term)
                cands[v.sort].append('(+ %s 2)' % v.term)
        cands.setdefault('Int', []).extend(['0', '1', '2'])
        # the most recent index terms before the obligation (nearest first)
        avail = self.inst_terms[:obl.ninst]
        # skip terms that are not indices (e.g. pointers used to index a field map)
        avail = [x for x in avail if not x[1].startswith('(select')]
        recent = avail[:10] + [x for x in reversed(avail[10:])]
        for (sort, term) in recent:
            l = cands.setdefault(sort, [])
            if term not in l and len(l) < 36:
                l.append(term)
        for ai, a in enumerate(self.assumes[:obl.nassume]):
            if not isinstance(a, tuple):
                continue
            if not self.relevant(ai, obl):
                continue
            qa = a[1]
            lists = [cands.get(s, []) for (_, s, _) in qa['vars']]
            if any(not l for l in lists):
                continue
            n = 0
            for combo in itertools.product(*lists):
                n += 1
                if n > 60:
                    break
                key = (qa['id'], combo)
                if key not in self.qa_cache and 'fn' in qa:
                    self.qa_cache[key] = imp(qa['guard'], qa['fn'](*combo))
                if key not in self.qa_cache:
                    env = dict(qa['env'])
                    for (vn, vs, vts), t in zip(qa['vars'], combo):
                        env[vn] = V(t, vs, vts)
                    ev = SpecEval(self, qa['pkg'], env, qa['st'], qa['old'], qa['old_env'], rec_level=qa['rec_level'])
                    ev.mode = 'assume'
                    ev.guard = qa['guard']
                    ev.ante = list(qa['ante'])
                    for (vn, vs, vts) in qa['vars']:
                        ev.qvars[vn] = env[vn]
                    ev.qvars.update(qa.get('qvars', {}))
                    n0 = len(self.assumes)
                    body = ev.eval(qa['body'])
                    # nested universal clauses registered during instantiation stay available to later queries only
                    self.qa_cache[key] = imp(qa['guard'], imp(and_(*qa['ante']), body.term))
                out.append(self.qa_cache[key])
        return out

    def site(self, kind):
        n = self.site_counters.get(kind, 0)
        self.site_counters[kind] = n + 1
        return n

    def oblige(self, kind, site, clause, guard, goal, tags=(), line=0, prefix=''):
        nm = '%s#%s%s[%s]' % (short_fn(self.prog, self.fname), prefix, kind, site)
        if clause:
            nm += ':' + re.sub(r'\s+', ' ', clause)
        o = Obl(nm, kind, guard, goal, len(self.assumes), list(tags), line, self.fname, clause)
        o.ninst = len(self.inst_terms)
        o.block = self.cur_block
        o.cut = self.cut
        self.obls.append(o)
        return o

    CTOR_IDX = {'Int': 1, 'Bool': 2, 'F32': 3, 'F64': 4, 'Str': 5, 'Slice': 6, 'Time': 7}

    def is_ref_type(self, ts):
        if ts.startswith('func:'):
            return True
        return ts in self.prog.types and self.prog.under(ts)['k'] in ('ptr', 'map', 'chan', 'sig')

    def tid(self, ts):
        """dynamic type id: 8*k + constructor index, so that the id determines the Any constructor"""
        if self.is_ref_type(ts):
            idx = 0
        else:
            idx = self.CTOR_IDX[self.sort_of(ts)]
        return 8 * self.prog.type_id(ts) + idx

    def strlit(self, s):
        if s not in self.strlits:
            c = self.declare('strlit', 'Str')
            self.strlits[s] = c
            runes = [ord(ch) for ch in s]
            self.assume('(= (gs.rlen %s) %d)' % (c, len(runes)))
            self.assume('(= (gs.blen %s) %d)' % (c, len(s.encode('utf-8', 'surrogatepass'))))
            for i, r in enumerate(runes):
                self.assume('(= (gs.at %s %d) %d)' % (c, i, r))
            for o, oc in self.strlits.items():
                if o != s:
                    self.assume('(not (= %s %s))' % (c, oc))
        return self.strlits[s]

    # ---- sorts of Go types -----------------------------------------------------------
    def sort_of(self, ts):
        prog = self.prog
        if ts.startswith('seq['):
            return 'Seq:' + self.sort_of(ts[4:-1])
        if ts.startswith('fmap['):
            return 'Arr:' + self.sort_of(ts[5:-1])
        td = prog.under(ts)
        k = td['k']
        if k == 'basic':
            n = td['name']
            if n in ('bool', 'untyped bool'):
                return 'Bool'
            if n in ('string', 'untyped string'):
                return 'Str'
            if n == 'float32':
                return 'F32'
            if n in ('float64', 'untyped float'):
                return 'F64'
            if n in INT_RANGES or n in ('untyped int', 'untyped rune', 'rune', 'byte'):
                return 'Int'
            if n == 'untyped nil':
                return 'Nil'
            if n == 'unsafe.Pointer':
                return 'Int'
            raise Unsupported('basic type ' + n)
        if k in ('ptr', 'map', 'sig', 'chan'):
            return 'Int'
        if k == 'slice':
            return 'Slice'
        if k == 'iface':
            return 'Any'
        if k == 'struct':
            if ts == 'time.Time':
                return 'Time'
            raise Unsupported('struct value of type ' + ts)
        if k == 'tuple':
            return 'Tuple'
        if k == 'array':
            raise Unsupported('array value of type ' + ts)
        raise Unsupported('type %s (%s)' % (ts, k))

    def int_kind(self, ts):
        td = self.prog.under(ts)
        if td['k'] != 'basic':
            return None
        n = td['name']
        if n in ('rune', 'untyped rune'):
            return 'int32'
        if n == 'byte':
            return 'uint8'
        if n == 'untyped int':
            return 'int'
        return n if n in INT_RANGES else None

    def zero(self, ts):
        s = self.sort_of(ts)
        return V(self.zero_of_sort(s), s, ts)

    def zero_of_sort(self, s):
        if s == 'Int':
            return '0'
        if s == 'Bool':
            return 'false'
        if s == 'Str':
            return self.strlit('')
        if s == 'Slice':
            return '(mkslice 0 0 0 0)'
        if s == 'Any':
            return 'a.nil'
        if s == 'F64':
            return '((_ to_fp 11 53) RNE 0.0)'
        if s == 'F32':
            return '((_ to_fp 8 24) RNE 0.0)'
        if s == 'Time':
            return self.ufun('time.zero', [], 'Time')
        raise Unsupported('zero of sort ' + s)

    def range_assume(self, v, guard='true'):
        """type invariants of a machine value: integer range, slice well-formedness"""
        if (v.term, guard) in self.range_memo:
            return
        self.range_memo.add((v.term, guard))
        if v.sort == 'Int' and v.ts:
            ik = self.int_kind(v.ts) if self.prog.types.get(v.ts) else None
            if ik:
                lo, hi = INT_RANGES[ik]
                self.assume('(and (<= %s %s) (<= %s %s))' % (num(lo), v.term, v.term, num(hi)), guard)
            elif self.prog.types.get(v.ts) and self.prog.under(v.ts)['k'] in ('ptr', 'map', 'sig', 'chan'):
                self.assume('(<= 0 %s)' % v.term, guard)
        elif v.sort == 'Any':
            x = v.term
            if x != 'a.nil':
                self.assume('(and (=> ((_ is a.ptr) %s) (= (mod (a.ptr.t %s) 8) 0)) (=> ((_ is a.int) %s) (= (mod (a.int.t %s) 8) 1)) (=> ((_ is a.bool) %s) (= (mod (a.bool.t %s) 8) 2)) '
                            '(=> ((_ is a.f32) %s) (= (mod (a.f32.t %s) 8) 3)) (=> ((_ is a.f64) %s) (= (mod (a.f64.t %s) 8) 4)) '
                            '(=> ((_ is a.str) %s) (= (mod (a.str.t %s) 8) 5)) (=> ((_ is a.slice) %s) (= (mod (a.slice.t %s) 8) 6)) '
                            '(=> ((_ is a.time) %s) (= (mod (a.time.t %s) 8) 7)))' % ((x,) * 16), guard)
        elif v.sort == 'Slice':
            t = v.term
            self.assume('(and (<= 0 (s.off %s)) (<= 0 (s.len %s)) (<= (s.len %s) (s.cap %s)) (<= (+ (s.off %s) (s.cap %s)) %d) (<= 0 (s.arr %s)))'
                        % (t, t, t, t, t, t, MAXLEN, t), guard)
            self.assume('(=> (= (s.arr %s) 0) (= (s.cap %s) 0))' % (t, t), guard)

    # ---- heap naming -------------------------------------------------------------
    def field_heap(self, stype, fname, fts):
        sort = self.sort_of(fts)
        name = 'H.%s.%s' % (san(short_fn(self.prog, stype)), fname)
        self.heap_sorts[name] = 'Arr:' + sort
        return name, 'Arr:' + sort

    def elem_heap(self, sort):
        name = 'E.' + san(sort)
        self.heap_sorts[name] = 'Arr:Arr:' + sort
        return name, 'Arr:Arr:' + sort

    def cell_heap(self, sort):
        name = 'C.' + san(sort)
        self.heap_sorts[name] = 'Arr:' + sort
        return name, 'Arr:' + sort

    def global_heap(self, gname, ets):
        sort = self.sort_of(ets)
        name = 'G.' + san(short_fn(self.prog, gname))
        self.heap_sorts[name] = sort
        return name, sort

    # ---- loads / stores --------------------------------------------------------------
    def load(self, st, loc):
        if loc.kind == 'field':
            hn, hs = self.field_heap(loc.stype, loc.fname, loc.ts)
            t = '(select %s %s)' % (st.get(hn, hs), loc.ref)
        elif loc.kind == 'elem':
            es = self.sort_of(loc.ts)
            hn, hs = self.elem_heap(es)
            t = '(select (select %s (s.arr %s)) (+ (s.off %s) %s))' % (st.get(hn, hs), loc.slice, loc.slice, loc.index)
        elif loc.kind == 'cell':
            hn, hs = self.cell_heap(self.sort_of(loc.ts))
            t = '(select %s %s)' % (st.get(hn, hs), loc.ref)
        elif loc.kind == 'global':
            hn, hs = self.global_heap(loc.name, loc.ts)
            t = st.get(hn, hs)
        else:
            raise Unsupported('load from ' + loc.kind)
        return V(t, self.sort_of(loc.ts), loc.ts)

    def store(self, st, loc, val):
        if loc.kind == 'field':
            hn, hs = self.field_heap(loc.stype, loc.fname, loc.ts)
            st.set(hn, self.define(hn, hs, '(store %s %s %s)' % (st.get(hn, hs), loc.ref, val.term)))
        elif loc.kind == 'elem':
            es = self.sort_of(loc.ts)
            hn, hs = self.elem_heap(es)
            cur = st.get(hn, hs)
            arr = '(s.arr %s)' % loc.slice
            st.set(hn, self.define(hn, hs, '(store %s %s (store (select %s %s) (+ (s.off %s) %s) %s))'
                                   % (cur, arr, cur, arr, loc.slice, loc.index, val.term)))
        elif loc.kind == 'cell':
            hn, hs = self.cell_heap(self.sort_of(loc.ts))
            st.set(hn, self.define(hn, hs, '(store %s %s %s)' % (st.get(hn, hs), loc.ref, val.term)))
        elif loc.kind == 'global':
            hn, hs = self.global_heap(loc.name, loc.ts)
            st.set(hn, val.term)
        else:
            raise Unsupported('store to ' + loc.kind)

    # ---- query text ------------------------------------------------------------------
    def lemma_instances(self, k, argvs, lv):
        """ground instances of proved lemmas triggered by the rec application k"""
        from .speceval import SpecEval
        from .spec import resolve_type
        out = []
        for lm in self.cs.lemmas.values():
            if self.lemma_limit is not None and lm.order >= self.lemma_limit:
                continue
            for (rn, pnames) in lm.triggers:
                if rn != k[0] or len(pnames) != len(argvs):
                    continue
                env = {}
                lparams = dict(lm.params)
                ok = True
                for pn, av in zip(pnames, argvs):
                    if pn not in lparams:
                        ok = False
                        break
                    env[pn] = av
                if not ok or len(env) != len(lm.params):
                    continue
                self.used_lemmas.add(lm.name)
                ev = SpecEval(self, lm.pkg, env, None, None, rec_level=lv + 1)
                req = [ev.eval(c.expr).term for c in lm.requires]
                ens = [ev.eval(c.expr).term for c in lm.ensures]
                out.append(imp(and_(*req), and_(*ens)))
        return out

    def unfold_recs(self, fuel):
        from .speceval import SpecEval
        if fuel in self.unfold_cache and self.unfold_cache[fuel][0] == len(self.rec_insts):
            return self.unfold_cache[fuel][1]
        axioms = []
        done = set()
        level = 0
        while level <= fuel:
            todo = [(k, v) for k, v in self.rec_insts.items() if k not in done and v[0] <= level]
            if not todo:
                break
            for k, (lv, argvs) in todo:
                done.add(k)
                axioms.extend(self.lemma_instances(k, argvs, lv))
                if level >= fuel or k[0] in self.opaque_recs:
                    continue
                sd = self.cs.specs[k[0]]
                ev = SpecEval(self, sd.pkg, {}, None, None, rec_level=lv + 1)
                env = {}
                for (pn, pt), av in zip(sd.params, argvs):
                    env[pn] = av
                ev.env = env
                body = ev.eval(sd.body)
                app = '(%s %s)' % (sym('rec.' + k[0]), ' '.join(k[1])) if k[1] else sym('rec.' + k[0])
                axioms.append(eq(app, body.term))
            level += 1
        self.unfold_cache[fuel] = (len(self.rec_insts), axioms)
        return axioms

    def query(self, obl, fuel=1, noq=False, lite=False):
        """lite: the unfoldings (and lemma instances) of the recursive spec functions the goal does not depend on are left out
        (sound: fewer assumptions); returns None when that leaves nothing out"""
        from .smt import PRELUDE
        qinst = self.instantiate_qas(obl)
        rec_axioms = self.unfold_recs(fuel)
        if lite:
            import re as _re
            names = lambda t: set(_re.findall(r'rec\.[A-Za-z0-9_]+', t))
            want = names(obl.goal) | names(obl.guard)
            ax_names = [names(a) for a in rec_axioms]
            changed = True
            keep = [False] * len(rec_axioms)
            while changed:
                changed = False
                for i, ns in enumerate(ax_names):
                    if not keep[i] and ns & want:
                        keep[i] = True
                        if not ns <= want:
                            want |= ns
                        changed = True
            rec_axioms = [a for a, k in zip(rec_axioms, keep) if k]
            # heap families (a field, an element sort, a global) the goal reads, through the definitions of its spec reads
            fam_of = lambda t: set(_re.sub(r'(\$[A-Za-z]+\d*)?([!@]\d+)?$', '', x) for x in _re.findall(r'(?<![A-Za-z0-9_$.])[EHG]\.[^\s()|]+', t))
            if getattr(self, '_defs', None) is None or self._defs[0] != len(self.lines):
                d = {}
                for l in self.lines:
                    if isinstance(l, str) and l.startswith('(define-fun '):
                        parts = l.split(' ', 4)
                        if len(parts) == 5:
                            d[parts[1]] = parts[4]
                self._defs = (len(self.lines), d)
            defs = self._defs[1]
            text = obl.goal
            seen_sp = set()
            todo = [x for x in _re.findall(r'sp\$[^\s()|]+', text)]
            while todo:
                x = todo.pop()
                if x in seen_sp or x not in defs:
                    continue
                seen_sp.add(x)
                text += ' ' + defs[x]
                todo.extend(_re.findall(r'sp\$[^\s()|]+', defs[x]))
            fams = fam_of(text)
            if not fams:
                return None
            lite_fams = (fams, fam_of)
        out = [PRELUDE]
        for es in sorted(self.seq_sorts):
            out.append(SEQ_DECL % {'s': es, 'smt': smt_sort(es)})
        for k in sorted(self.ufuns):
            out.append(self.ufuns[k])
        for l in self.lines:
            if isinstance(l, tuple):
                out.append('(define-fun %s () Bool %s)' % (l[1], 'true' if noq else l[2]))
            else:
                out.append(l)
        for a in self.quant_axioms:
            out.append('(assert %s)' % a)
        for a in rec_axioms:
            out.append('(assert %s)' % a)
        if lite:
            fams, fam_of = lite_fams
            near = lambda a: (lambda fa: not fa or bool(fa & fams))(fam_of(a))
        else:
            near = lambda a: True
        for ai, a in enumerate(self.assumes[:obl.nassume]):
            if not isinstance(a, tuple) and self.relevant(ai, obl) and near(a):
                out.append('(assert %s)' % a)
        seen = set()
        for a in qinst:
            if a not in seen and a != 'true' and near(a):
                seen.add(a)
                out.append('(assert %s)' % a)
        if obl.expect == 'sat':
            out.append('(assert %s)' % and_(obl.guard, obl.goal))
        else:
            out.append('(assert (not %s))' % imp(obl.guard, obl.goal))
        out.append('(check-sat)')
        return '\n'.join(out) + '\n'
