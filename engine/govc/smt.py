"""SMT-LIB helpers: typed terms, sorts, solver invocation (race z3-new, z3, cvc5)."""
import os
import re
import subprocess
import time
import hashlib

INT_RANGES = {
    'int': (-(2 ** 63), 2 ** 63 - 1), 'int64': (-(2 ** 63), 2 ** 63 - 1), 'int32': (-(2 ** 31), 2 ** 31 - 1),
    'int16': (-(2 ** 15), 2 ** 15 - 1), 'int8': (-128, 127),
    'uint': (0, 2 ** 64 - 1), 'uint64': (0, 2 ** 64 - 1), 'uint32': (0, 2 ** 32 - 1), 'uint16': (0, 2 ** 16 - 1),
    'uint8': (0, 255), 'uintptr': (0, 2 ** 64 - 1),
}

SORT_SMT = {
    'Int': 'Int', 'Bool': 'Bool', 'F32': '(_ FloatingPoint 8 24)', 'F64': '(_ FloatingPoint 11 53)',
    'Str': 'Str', 'Slice': 'Slice', 'Any': 'Any', 'Time': 'Time', 'Real': 'Real',
}


def smt_sort(s):
    if s in SORT_SMT:
        return SORT_SMT[s]
    if s.startswith('Seq:'):
        return 'Seq_' + s[4:]
    if s.startswith('Arr:'):
        return '(Array Int %s)' % smt_sort(s[4:])
    if s.startswith('Map:'):
        k, v = s[4:].split('>', 1)
        return '(Array %s %s)' % (smt_sort(k), smt_sort(v))
    if s.startswith('Opt:'):
        return 'Opt_' + s[4:]
    if s.startswith('Tree') or s.startswith('DT:'):
        return s.split(':', 1)[-1]
    raise KeyError('no SMT sort for %r' % s)


class V:
    """typed SMT value: term (s-expression text), sort (engine sort name), ts (Go type string or None)"""
    __slots__ = ('term', 'sort', 'ts')

    def __init__(self, term, sort, ts=None):
        self.term = term
        self.sort = sort
        self.ts = ts

    def __repr__(self):
        return 'V(%s:%s)' % (self.term, self.sort)


def num(n):
    n = int(n)
    return str(n) if n >= 0 else '(- %d)' % (-n)


def sym(s):
    if re.match(r'^[A-Za-z_][A-Za-z0-9_.$!@]*$', s):
        return s
    return '|' + s.replace('|', '!').replace('\\', '/') + '|'


def and_(*xs):
    xs = [x for x in xs if x != 'true']
    if any(x == 'false' for x in xs):
        return 'false'
    if not xs:
        return 'true'
    if len(xs) == 1:
        return xs[0]
    return '(and ' + ' '.join(xs) + ')'


def or_(*xs):
    xs = [x for x in xs if x != 'false']
    if any(x == 'true' for x in xs):
        return 'true'
    if not xs:
        return 'false'
    if len(xs) == 1:
        return xs[0]
    return '(or ' + ' '.join(xs) + ')'


def not_(x):
    if x == 'true':
        return 'false'
    if x == 'false':
        return 'true'
    if x.startswith('(not ') and x.endswith(')') and balanced(x[5:-1]):
        return x[5:-1]
    return '(not %s)' % x


def balanced(s):
    d = 0
    for ch in s:
        if ch == '(':
            d += 1
        elif ch == ')':
            d -= 1
            if d < 0:
                return False
    return d == 0


def imp(a, b):
    if a == 'true':
        return b
    if b == 'true' or a == 'false':
        return 'true'
    return '(=> %s %s)' % (a, b)


def ite(c, a, b):
    if c == 'true':
        return a
    if c == 'false':
        return b
    if a == b:
        return a
    return '(ite %s %s %s)' % (c, a, b)


def eq(a, b):
    if a == b:
        return 'true'
    return '(= %s %s)' % (a, b)


PRELUDE = r"""
(set-option :produce-models true)
(set-logic ALL)
(declare-sort Str 0)
(declare-sort Time 0)
(declare-datatypes ((Slice 0)) (((mkslice (s.arr Int) (s.off Int) (s.len Int) (s.cap Int)))))
(declare-datatypes ((Any 0)) ((
  (a.nil)
  (a.ptr (a.ptr.t Int) (a.ptr.v Int))
  (a.int (a.int.t Int) (a.int.v Int))
  (a.bool (a.bool.t Int) (a.bool.v Bool))
  (a.f32 (a.f32.t Int) (a.f32.v (_ FloatingPoint 8 24)))
  (a.f64 (a.f64.t Int) (a.f64.v (_ FloatingPoint 11 53)))
  (a.str (a.str.t Int) (a.str.v Str))
  (a.slice (a.slice.t Int) (a.slice.v Slice))
  (a.time (a.time.t Int) (a.time.v Time))
)))
(define-fun a.tid ((x Any)) Int
  (ite ((_ is a.ptr) x) (a.ptr.t x) (ite ((_ is a.int) x) (a.int.t x) (ite ((_ is a.bool) x) (a.bool.t x) (ite ((_ is a.f32) x) (a.f32.t x)
  (ite ((_ is a.f64) x) (a.f64.t x) (ite ((_ is a.str) x) (a.str.t x) (ite ((_ is a.slice) x) (a.slice.t x)
  (ite ((_ is a.time) x) (a.time.t x) 0)))))))))
(declare-fun gs.rlen (Str) Int)
(declare-fun gs.runes (Str) (Array Int Int))
(define-fun gs.at ((s Str) (i Int)) Int (select (gs.runes s) i))
(declare-fun gs.blen (Str) Int)
(define-fun wrap64 ((x Int)) Int
  (ite (and (<= (- 9223372036854775808) x) (<= x 9223372036854775807)) x
       (- (mod (+ x 9223372036854775808) 18446744073709551616) 9223372036854775808)))
(define-fun wrap32 ((x Int)) Int
  (ite (and (<= (- 2147483648) x) (<= x 2147483647)) x
       (- (mod (+ x 2147483648) 4294967296) 2147483648)))
(define-fun wrapu64 ((x Int)) Int (mod x 18446744073709551616))
(define-fun wrapu32 ((x Int)) Int (mod x 4294967296))
(define-fun wrapu8 ((x Int)) Int (mod x 256))
(define-fun wrapu16 ((x Int)) Int (mod x 65536))
(define-fun wrap16 ((x Int)) Int (- (mod (+ x 32768) 65536) 32768))
(define-fun wrap8 ((x Int)) Int (- (mod (+ x 128) 256) 128))
(define-fun go.quo ((x Int) (y Int)) Int
  (ite (>= x 0) (ite (> y 0) (div x y) (- (div x (- y))))
                (ite (> y 0) (- (div (- x) y)) (div (- x) (- y)))))
(define-fun go.rem ((x Int) (y Int)) Int (- x (* y (go.quo x y))))
(define-fun imin ((x Int) (y Int)) Int (ite (<= x y) x y))
(define-fun imax ((x Int) (y Int)) Int (ite (>= x y) x y))
(define-fun scalar ((r Int)) Bool (and (<= 0 r) (<= r 1114111) (not (and (<= 55296 r) (<= r 57343)))))
(define-fun fixrune ((r Int)) Int (ite (scalar r) r 65533))
"""

SEQ_DECL = "(declare-datatypes ((Seq_%(s)s 0)) (((mkseq_%(s)s (sq.a_%(s)s (Array Int %(smt)s)) (sq.o_%(s)s Int) (sq.n_%(s)s Int)))))"


SOLVERS = {
    'z3new': lambda f, t: ['z3-new', '-T:%d' % t, f],
    'z3': lambda f, t: ['z3', '-T:%d' % t, f],
    'cvc5': lambda f, t: ['cvc5', '--tlimit=%d' % (t * 1000), '--produce-models', f],
}


def run_solver(name, path, timeout):
    t0 = time.time()
    try:
        p = subprocess.run(SOLVERS[name](path, timeout), capture_output=True, text=True, timeout=timeout + 5)
        out = p.stdout.strip()
    except subprocess.TimeoutExpired:
        return 'timeout', '', time.time() - t0
    first = out.split('\n', 1)[0].strip() if out else ''
    if first not in ('sat', 'unsat', 'unknown'):
        if 'timeout' in out:
            first = 'timeout'
        else:
            first = 'error'
            out = out + '\n' + (p.stderr or '')
    return first, out, time.time() - t0


def solve(query_text, workdir, name, timeout=10, order=('z3new', 'z3', 'cvc5'), want_model=False):
    """Run solvers in order until a definite answer. Returns dict(status, solver, time, output, tried)."""
    h = hashlib.sha1(name.encode()).hexdigest()[:16]
    path = os.path.join(workdir, h + '.smt2')
    with open(path, 'w') as f:
        f.write(query_text)
    tried = []
    total = 0.0
    last = None
    for s in order:
        st, out, dt = run_solver(s, path, timeout)
        total += dt
        tried.append((s, st, round(dt, 3)))
        last = (st, out, s)
        if st in ('sat', 'unsat'):
            return {'status': st, 'solver': s, 'time': total, 'output': out, 'tried': tried, 'path': path}
    return {'status': last[0], 'solver': last[2], 'time': total, 'output': last[1], 'tried': tried, 'path': path}
