"""Counterexample extraction and replay against the real code.

A replay family knows (a) which inputs to read from the solver's model (written as specification
expressions over the function's entry state), (b) how to bound them for a total model, and (c) the
Go test that re-establishes the state on the real object through its API and evaluates the property.
The test is injected with `go test -overlay` (nothing is written into /repo).
"""
import json
import os
import re
import subprocess

from . import driver, smt
from .spec import parse_expr, SpecError
from .speceval import SpecEval
from .vcgen import short_fn

FAMILIES = []


def family(pattern):
    def deco(cls):
        FAMILIES.append((re.compile(pattern), cls))
        return cls
    return deco


def find_family(fname):
    for rx, cls in reversed(FAMILIES):
        if rx.search(fname):
            return cls
    return None


# ---- model values ------------------------------------------------------------------------------------

def parse_sexpr(s):
    toks = re.findall(r'\(|\)|\|[^|]*\||"(?:[^"]|"")*"|[^\s()]+', s)
    pos = 0

    def rd():
        nonlocal pos
        t = toks[pos]
        pos += 1
        if t == '(':
            l = []
            while toks[pos] != ')':
                l.append(rd())
            pos += 1
            return l
        return t
    out = []
    while pos < len(toks):
        out.append(rd())
    return out


def sval(x):
    """model value s-expression -> python value (ints, bools); else raw"""
    if isinstance(x, str):
        if re.match(r'^-?\d+$', x):
            return int(x)
        if x == 'true':
            return True
        if x == 'false':
            return False
        return x
    if len(x) == 2 and x[0] == '-' and isinstance(x[1], str) and x[1].isdigit():
        return -int(x[1])
    return x


def get_values(vc, obl, exprs, bounds, wd, timeout=10, fuel=3):
    """exprs: {name: spec expression text}; returns {name: value} from a model of the failed obligation,
    preferring a model under the extra `bounds` (spec expressions assumed true)"""
    env, st = vc.entry_env, vc.entry_state
    pkg = vc.entry_pkg
    terms = {}
    for k, text in exprs.items():
        try:
            ev = SpecEval(vc, pkg, env, st, st, env)
            terms[k] = ev.eval(parse_expr(text)).term
        except SpecError:
            continue
    bterms = []
    for text in bounds:
        ev = SpecEval(vc, pkg, env, st, st, env)
        bterms.append(ev.eval(parse_expr(text)).term)
    base = vc.query(obl, fuel)
    gv = '(get-value (%s))' % ' '.join(terms.values())
    for use_bounds in (True, False):
        q = base.replace('(check-sat)', '')
        if use_bounds:
            for b in bterms:
                q += '(assert %s)\n' % b
        q += '(check-sat)\n' + gv + '\n'
        r = smt.solve(q, wd, 'model##' + obl.name + str(use_bounds), timeout)
        if r['status'] == 'sat':
            body = r['output'].split('\n', 1)[1] if '\n' in r['output'] else ''
            try:
                parsed = parse_sexpr(body)
            except Exception:
                continue
            vals = {}
            if parsed:
                pairs = parsed[0]
                for (k, _), pr in zip(terms.items(), pairs):
                    vals[k] = sval(pr[1])
            return vals, r
    return None, None


# ---- running a replay ------------------------------------------------------------------------------------

def run_go_test(repo, pkgdir, source, wd, name='TestVerifReplay', timeout=60, race=False):
    """inject source as an in-package test of repo/pkgdir via overlay and run it"""
    os.makedirs(wd, exist_ok=True)
    src = os.path.join(wd, 'zz_verif_replay_test.go')
    with open(src, 'w') as f:
        f.write(source)
    import shutil
    shutil.copy(os.path.join(repo, 'go.mod'), os.path.join(wd, 'go.mod'))
    shutil.copy(os.path.join(repo, 'go.sum'), os.path.join(wd, 'go.sum'))
    ov = os.path.join(wd, 'overlay.json')
    with open(ov, 'w') as f:
        json.dump({'Replace': {os.path.join(repo, pkgdir, 'zz_verif_replay_test.go'): src}}, f)
    cmd = ['go', 'test', '-overlay', ov, '-modfile', os.path.join(wd, 'go.mod'), '-vet=off', '-count=1'] + (['-race'] if race else []) + [
           '-timeout', '%ds' % timeout, '-run', '^%s$' % name, './' + pkgdir]
    try:
        p = subprocess.run(cmd, cwd=repo, capture_output=True, text=True, env=driver.goenv(), timeout=timeout + 120)
    except subprocess.TimeoutExpired:
        return 'TIMEOUT', 'go test timed out'
    out = (p.stdout + p.stderr)[-4000:]
    if p.returncode == 0:
        return 'PASS', out
    if '--- FAIL' in out or 'panic:' in out or 'FAIL' in out or 'DATA RACE' in out:
        if '[build failed]' in out or 'setup failed' in out:
            return 'BUILD-ERROR', out
        return 'FAIL', out
    return 'ERROR', out


def make_replay(prog, vc, obl, result, pid, wd, repo):
    """returns dict describing the replay (also what goes into the replay file)"""
    rec = {
        'property': pid, 'obligation': obl.name, 'function': short_fn(prog, obl.fn), 'kind': obl.kind,
        'clause': obl.clause, 'line': obl.line, 'solver_status': result['status'], 'solver': result['solver'],
        'solver_output': result['output'][:2000], 'tried': result['tried'],
        'failing_input_found': False, 'test_result': 'none',
    }
    cls = find_family(obl.fn)
    if cls is None or result['status'] not in ('sat', 'unknown', 'timeout'):
        rec['note'] = 'no replay family for this function' if cls is None else 'no model'
        return rec
    fam = cls(prog, vc, obl)
    try:
        vals, r = get_values(vc, obl, fam.inputs(), fam.bounds(), wd)
    except Exception as e:  # model extraction is best effort
        rec['note'] = 'model extraction failed: %s' % e
        return rec
    if vals is None:
        rec['note'] = 'no model under or without bounds'
        return rec
    rec['model_inputs'] = {k: (v if isinstance(v, (int, bool, str)) else str(v)) for k, v in vals.items()}
    try:
        pkgdir, src = fam.test_source(vals)
    except Exception as e:
        rec['note'] = 'could not build a test from the model: %s' % e
        return rec
    rec['test_pkg'] = pkgdir
    rec['test_source'] = src
    res, out = run_go_test(repo, pkgdir, src, os.path.join(wd, 'replay'))
    rec['test_result'] = res
    rec['test_output'] = out[-2000:]
    rec['failing_input_found'] = (res == 'FAIL')
    return rec


# ---- families ------------------------------------------------------------------------------------------------

class Family:
    def __init__(self, prog, vc, obl):
        self.prog = prog
        self.vc = vc
        self.obl = obl
        self.func = prog.funcs[obl.fn]

    def inputs(self):
        return {}

    def bounds(self):
        return []

    # bounded stand-in used only when a contract no longer fits the code (restructured function):
    # returns (pkgdir, go test source, description of the bound) or None
    @classmethod
    def bounded_source(cls, prog, fname):
        return None


def go_runes(vals, prefix, n):
    out = []
    for i in range(n):
        v = vals.get('%s%d' % (prefix, i), 0)
        if not isinstance(v, int):
            v = 0
        if v < 0 or v > 0x10FFFF or 0xD800 <= v <= 0xDFFF:
            v = 0x78
        out.append(str(v))
    return '[]rune{' + ', '.join(out) + '}'


@family(r'/io\.StringScanner\)\.|/io\.NewStringScanner')
class ScannerFamily(Family):
    MAXN = 6

    def inputs(self):
        d = {}
        if self.func.short == 'NewStringScanner':
            d['n'] = 'rlen(content)'
            for i in range(self.MAXN):
                d['r%d' % i] = 'content[%d]' % i
            return d
        d = {'n': 'len(c.content)', 'pos': 'c.position'}
        for i in range(self.MAXN):
            d['r%d' % i] = 'c.content[%d]' % i
        if self.func.short == 'UnreadMany':
            d['count'] = 'count'
        return d

    @classmethod
    def bounded_source(cls, prog, fname):
        src = '''package io

import "testing"

// bounded stand-in: every content over {a, LF, CR} up to length 5, every cursor, every operation,
// compared with a fresh forward scan (the reference of the property statement)
func TestVerifReplay(t *testing.T) {
	alphabet := []rune{'a', 10, 13}
	var contents [][]rune
	var gen func(cur []rune, n int)
	gen = func(cur []rune, n int) {
		contents = append(contents, append([]rune{}, cur...))
		if n == 0 { return }
		for _, ch := range alphabet { gen(append(cur, ch), n-1) }
	}
	gen(nil, 5)
	// characters a reader might be tempted to treat specially: byte-order mark, NUL, U+FFFE/U+FFFF, line and paragraph separators, a non-BMP character
	for _, ch := range []rune{0xFEFF, 0, 0xFFFE, 0xFFFF, 0x2028, 0x2029, 0x85, 0x1F600} {
		contents = append(contents, []rune{ch}, []rune{ch, 'a', 10, ch}, []rune{'a', ch, 13, 10}, []rune{ch, ch})
	}
	mk := func(c []rune, k int) *StringScanner {
		s := NewStringScanner(string(c))
		for i := 0; i < k; i++ { s.Read() }
		return s
	}
	same := func(what string, c []rune, k int, s *StringScanner, want int) {
		if want < 0 { want = 0 }
		f := mk(c, want)
		if s.position != f.position || s.line != f.line || s.column != f.column {
			t.Fatalf("%s after %d reads on %q: (position,line,column)=(%d,%d,%d), fresh forward scan gives (%d,%d,%d)", what, k, string(c), s.position, s.line, s.column, f.position, f.line, f.column)
		}
		if a, b := s.Read(), f.Read(); a != b { t.Fatalf("%s after %d reads on %q: next Read %d, fresh scanner %d", what, k, string(c), a, b) }
	}
	for _, c := range contents {
		n := len(c)
		for k := 0; k <= n+1; k++ {
			s := mk(c, k); ch := s.Read(); w := k + 1; if w > n+1 { w = n + 1 }
			if k < n && ch != c[k] || k >= n && ch != -1 { t.Fatalf("Read #%d on %q returned %d", k+1, string(c), ch) }
			same("Read", c, k, mk(c, w), w)
			s = mk(c, k); s.Unread(); same("Unread", c, k, s, k-1)
			for cnt := -1; cnt <= 3; cnt++ { s = mk(c, k); s.UnreadMany(cnt); m := cnt; if m < 0 { m = 0 }; same("UnreadMany", c, k, s, k-m) }
			s = mk(c, k); s.Reset(); same("Reset", c, k, s, 0)
			s = mk(c, k); pl, pc, pk := s.PeekLine(), s.PeekColumn(), s.Peek()
			if s.position != k-1 { t.Fatalf("peek moved the cursor") }
			r := s.Read()
			if pk != r || pl != s.Line() || pc != s.Column() { t.Fatalf("after %d reads on %q: peeked (%d, line %d, column %d), the next Read gives (%d, line %d, column %d)", k, string(c), pk, pl, pc, r, s.Line(), s.Column()) }
		}
	}
}
'''
        return 'io', src, 'all contents over {a, LF, CR} up to length 5 (plus contents with a byte-order mark, NUL, U+FFFE, U+FFFF, U+2028, U+2029, U+0085, a non-BMP character) x all cursors x all scanner operations'

    def bounds(self):
        if self.func.short == 'NewStringScanner':
            return ['rlen(content) <= %d' % self.MAXN]
        b = ['len(c.content) <= %d' % self.MAXN]
        if self.func.short == 'UnreadMany':
            b.append('count <= 8 && count >= -2')
        return b

    def test_source(self, vals):
        n = vals.get('n', 0)
        if not isinstance(n, int) or n < 0 or n > 64:
            raise ValueError('content length %r out of replay range' % (n,))
        pos = vals.get('pos', -1)
        content = go_runes(vals, 'r', min(n, self.MAXN))
        m = self.func.short
        call = {'Read': 's.Read()', 'Unread': 's.Unread()', 'UnreadMany': 's.UnreadMany(%d)' % vals.get('count', 1),
                'Reset': 's.Reset()', 'Peek': 's.Peek()', 'PeekLine': 's.PeekLine()', 'PeekColumn': 's.PeekColumn()',
                'Line': 's.Line()', 'Column': 's.Column()'}.get(m, '')
        if m == 'UnreadMany':
            want = 'k - max0(%d)' % vals.get('count', 1)
        else:
            want = {'Read': 'k + 1', 'Unread': 'k - 1', 'Reset': '0'}.get(m, 'k')
        src = '''package io

import "testing"

// replay of a counterexample: establish the cursor with k reads on a fresh scanner, apply the
// operation, compare with a fresh forward scan (the reference of the property statement).
func max0(x int) int { if x < 0 { return 0 }; return x }

func TestVerifReplay(t *testing.T) {
	content := %(content)s
	n := len(content)
	k := %(k)d // cursor = number of reads so far (position + 1)
	if k < 0 || k > n+1 { t.Skip("model state not reachable through the API") }
	s := NewStringScanner(string(content))
	for i := 0; i < k; i++ { s.Read() }
	ref := NewStringScanner(string(content))
	for i := 0; i < k; i++ { ref.Read() }
	if s.line != ref.line || s.column != ref.column { t.Fatalf("setup differs") }
	op := "%(op)s"
	var peekL, peekC int
	var peekCh rune
	switch op {
	case "PeekLine": peekL = s.PeekLine()
	case "PeekColumn": peekC = s.PeekColumn()
	case "Peek": peekCh = s.Peek()
	default:
		%(call)s
	}
	want := %(want)s
	if want < 0 { want = 0 }
	if want > n+1 { want = n + 1 }
	switch op {
	case "PeekLine", "PeekColumn", "Peek":
		// the peeked values are those reported after the next read
		ch := ref.Read()
		if op == "PeekLine" && peekL != ref.Line() { t.Fatalf("PeekLine=%%d but Line() after the next Read=%%d (content %%q, %%d reads)", peekL, ref.Line(), string(content), k) }
		if op == "PeekColumn" && peekC != ref.Column() { t.Fatalf("PeekColumn=%%d but Column() after the next Read=%%d (content %%q, %%d reads)", peekC, ref.Column(), string(content), k) }
		if op == "Peek" && peekCh != ch { t.Fatalf("Peek=%%d but next Read=%%d", peekCh, ch) }
		if s.position != k-1 { t.Fatalf("peek moved the cursor") }
		return
	}
	fresh := NewStringScanner(string(content))
	for i := 0; i < want; i++ { fresh.Read() }
	if s.position != fresh.position || s.line != fresh.line || s.column != fresh.column {
		t.Fatalf("after %%d reads and %%s: (position,line,column)=(%%d,%%d,%%d), fresh forward scan to the same cursor gives (%%d,%%d,%%d); content %%q",
			k, op, s.position, s.line, s.column, fresh.position, fresh.line, fresh.column, string(content))
	}
	// the next read must behave like the fresh scanner's
	if a, b := s.Read(), fresh.Read(); a != b { t.Fatalf("next Read returns %%d, fresh scanner returns %%d", a, b) }
}
''' % {'content': content, 'k': (pos + 1) if isinstance(pos, int) else 0, 'op': m, 'call': call or '_ = 0', 'want': want}
        return 'io', src


@family(r'/tokenizers/utilities\.CharReference')
class CharMapFamily(Family):
    MAXN = 3

    def inputs(self):
        d = {}
        names = [p['n'] for p in self.func.params]
        if 'symbol' in names:
            d['symbol'] = 'symbol'
        if 'reference' in names:
            d['refnil'] = 'reference == nil'
        if 'start' in names:
            d['start'] = 'start'
            d['end'] = 'end'
        if self.func.params and self.func.params[0]['t'].endswith('CharReferenceMap'):
            d['n'] = 'len(c.otherIntervals)'
            for i in range(self.MAXN):
                d['s%d' % i] = 'c.otherIntervals[%d].start' % i
                d['e%d' % i] = 'c.otherIntervals[%d].end' % i
        return d

    def bounds(self):
        if 'n' in self.inputs():
            return ['len(c.otherIntervals) <= %d' % self.MAXN]
        return []

    @classmethod
    def bounded_source(cls, prog, fname):
        src = '''package utilities

import "testing"

// C17 (bounded): every sequence of up to 3 operations - AddInterval with both endpoints from the boundary set of the statement
// and a reference A, B or none, AddDefaultInterval, Clear - with lookups of every boundary character and its neighbours after
// every step, in ascending and then in descending order (so that anything a lookup leaves behind is exercised), against
// "the most recent registration whose range contains the character".
type bop struct { kind int; s, e rune; ref string }   // kind 0 AddInterval, 1 AddDefaultInterval, 2 Clear

func TestVerifReplay(t *testing.T) {
	ends := []rune{0, 'a', 0xFF, 0x100, 0x101, 0x2000, 0xFFFE}
	var ops []bop
	for i, a := range ends { for _, b := range ends[i:] { for _, r := range []string{"A", "B", ""} { ops = append(ops, bop{0, a, b, r}) } } }
	for _, r := range []string{"A", "B", ""} { ops = append(ops, bop{1, 0, 0xFFFE, r}) }
	ops = append(ops, bop{2, 0, 0, ""})
	var probes []rune
	for _, e := range ends { for _, d := range []rune{-1, 0, 1} { if e+d >= 0 { probes = append(probes, e+d) } } }
	oracle := func(hist []bop, ch rune) any {
		for i := len(hist) - 1; i >= 0; i-- {
			h := hist[i]
			if h.kind == 2 { return nil }
			if h.s <= ch && ch <= h.e { if h.ref == "" { return nil }; return h.ref }
		}
		return nil
	}
	bad := 0
	var run func(m *CharReferenceMap, hist []bop, depth int)
	check := func(m *CharReferenceMap, hist []bop) {
		for pass := 0; pass < 2; pass++ {
			for k := range probes {
				ch := probes[k]
				if pass == 1 { ch = probes[len(probes)-1-k] }
				if got, want := m.Lookup(ch), oracle(hist, ch); got != want { t.Errorf("after %v: Lookup(%#x) = %v, the most recent covering registration gives %v", hist, ch, got, want); bad++; if bad > 5 { t.FailNow() } }
			}
		}
	}
	run = func(m *CharReferenceMap, hist []bop, depth int) {
		if depth == 0 { return }
		for _, o := range ops {
			// replay the history on a fresh map (the map has no copy operation), then apply the next operation
			m2 := NewCharReferenceMap()
			h2 := append(append([]bop{}, hist...), o)
			for i, h := range h2 {
				switch h.kind {
				case 0: if h.ref == "" { m2.AddInterval(h.s, h.e, nil) } else { m2.AddInterval(h.s, h.e, h.ref) }
				case 1: if h.ref == "" { m2.AddDefaultInterval(nil) } else { m2.AddDefaultInterval(h.ref) }
				case 2: m2.Clear()
				}
				check(m2, h2[:i+1])
			}
			run(m2, h2, depth-1)
		}
	}
	run(NewCharReferenceMap(), nil, 3)
}
'''
        return 'tokenizers/utilities', src, ('all sequences of up to 3 registrations / clears with endpoints from {0, a, U+00FF, U+0100, U+0101, U+2000, U+FFFE} and references A, B, none; '
                                             'lookups of every boundary character and its neighbours after every step, in both directions')

    def test_source(self, vals):
        n = vals.get('n', 0)
        if not isinstance(n, int) or n < 0 or n > self.MAXN:
            n = 0
        regs = []
        for i in reversed(range(n)):
            s, e = vals.get('s%d' % i, 256), vals.get('e%d' % i, 256)
            if not isinstance(s, int) or not isinstance(e, int) or s > e or s < 0 or s > 0xfffe:
                continue
            regs.append('{%d, %d, "r%d"}' % (s, e, i))
        m = self.func.short
        sym = vals.get('symbol', 300)
        st, en = vals.get('start', 0), vals.get('end', 0)
        if m == 'AddInterval' and isinstance(st, int) and isinstance(en, int) and 0 <= st <= en and st <= 0xfffe:
            regs.append('{%d, %d, "%s"}' % (st, en, '' if vals.get('refnil') is True else 'new'))
        if m == 'AddDefaultInterval':
            regs.append('{0, 0xfffe, "%s"}' % ('' if vals.get('refnil') is True else 'new'))
        probes = [0, 255, 256, 0xfffe, 0xffff]
        for v in (sym, st, en):
            if isinstance(v, int):
                probes += [v - 1, v, v + 1]
        for i in range(n):
            for k in ('s%d' % i, 'e%d' % i):
                if isinstance(vals.get(k), int):
                    probes += [vals[k] - 1, vals[k], vals[k] + 1]
        probes = sorted(set(p for p in probes if -2 <= p <= 0x10ffff))
        src = '''package utilities

import "testing"

type vreg struct { s, e rune; ref string }

// reference semantics of the property statement: the most recent registration whose range (clipped to
// U+FFFE) contains the character wins; nothing if there is none.
func voracle(regs []vreg, ch rune) any {
	for i := len(regs) - 1; i >= 0; i-- {
		e := regs[i].e
		if e >= 0xffff { e = 0xfffe }
		if regs[i].s <= ch && ch <= e { if regs[i].ref == "" { return nil }; return regs[i].ref }
	}
	return nil
}

func TestVerifReplay(t *testing.T) {
	regs := []vreg{%(regs)s}
	m := NewCharReferenceMap()
	if %(clear)s { m.Clear(); regs = nil }
	// lookups are interleaved with the registrations (any history), an empty reference registers "nothing"
	for i, r := range regs {
		if r.ref == "" { m.AddInterval(r.s, r.e, nil) } else { m.AddInterval(r.s, r.e, r.ref) }
		for _, ch := range []rune{%(probes)s} {
			got := m.Lookup(ch)
			want := voracle(regs[:i+1], ch)
			if got != want { t.Fatalf("Lookup(%%#x) = %%v (%%T), latest covering registration is %%v; registrations %%v", ch, got, got, want, regs[:i+1]) }
		}
	}
}
''' % {'regs': ', '.join(regs), 'probes': ', '.join(str(p) for p in probes), 'clear': 'true' if m == 'Clear' else 'false'}
        return 'tokenizers/utilities', src


@family(r'/variants\.Variant\)\.|/variants\.(NewVariant|VariantFrom|EmptyVariant)')
class VariantFamily(Family):
    """re-creates the receiver (and the other operand) from their variant type and array length through the
    public constructors, then checks the C20 statement around the function under contract"""
    NAMES = ['Null', 'Integer', 'Long', 'Float', 'Double', 'String', 'Boolean', 'DateTime', 'TimeSpan', 'Object', 'Array']

    @classmethod
    def bounded_source(cls, prog, fname):
        src = '''package variants

import (
	"fmt"
	"testing"
)

// bounded stand-in: every sequence of up to 3 array operations (SetByIndex 0..6, SetLength 0..6, clone-and-write)
// on arrays of length 0..2, compared with a plain list model; plus equality/copy checks on every scalar type
func TestVerifReplay(t *testing.T) {
	type op struct{ kind, arg int }
	var ops []op
	for i := 0; i <= 6; i++ { ops = append(ops, op{0, i}, op{1, i}) }
	ops = append(ops, op{2, 0})
	check := func(v *Variant, model []*Variant, what string) {
		if v.Length() != len(model) { t.Fatalf("%s: length %d, want %d", what, v.Length(), len(model)) }
		for i := range model {
			e := v.GetByIndex(i)
			if e == nil { t.Fatalf("%s: element %d is a nil pointer, want a variant", what, i) }
			if model[i] == nil { if !e.IsNull() { t.Fatalf("%s: element %d should be Null", what, i) } } else if e != model[i] { t.Fatalf("%s: element %d changed", what, i) }
			// "grow the array with nulls": each padded position is a null of its own, not one object seen through several positions
			for j := 0; j < i; j++ { if v.GetByIndex(j) == e { t.Fatalf("%s: positions %d and %d hold the same object", what, j, i) } }
		}
	}
	// writing into one padded null in place leaves the other positions as they were
	poke := func(v *Variant, model []*Variant, what string) {
		for i := range model {
			if model[i] != nil { continue }
			e := v.GetByIndex(i)
			e.SetAsInteger(77)
			for j := range model { if j != i && model[j] == nil && !v.GetByIndex(j).IsNull() { t.Fatalf("%s: writing into position %d changed position %d", what, i, j) } }
			e.Clear()
		}
	}
	// every sequence of up to 3 operations, applied in place to a freshly built array (so spare capacity
	// left by an earlier growth is exercised), checked against the list model after every step
	var seqs [][]op
	var gen func(cur []op, d int)
	gen = func(cur []op, d int) {
		seqs = append(seqs, append([]op{}, cur...))
		if d == 0 { return }
		for _, o := range ops { gen(append(cur, o), d-1) }
	}
	gen(nil, 3)
	for n := 0; n <= 2; n++ {
		for _, sq := range seqs {
			var l []*Variant
			for i := 0; i < n; i++ { l = append(l, VariantFromInteger(i)) }
			v := VariantFromArray(l)
			model := append([]*Variant{}, l...)
			if n > 0 { keep := l[0]; l[0] = VariantFromInteger(9); check(v, model, "caller list changed"); l[0] = keep }
			trace := ""
			for _, o := range sq {
				switch o.kind {
				case 0:
					x := VariantFromInteger(100 + o.arg); v.SetByIndex(o.arg, x)
					for len(model) <= o.arg { model = append(model, nil) }
					model[o.arg] = x; trace += " SetByIndex"
				case 1:
					v.SetLength(o.arg)
					for len(model) < o.arg { model = append(model, nil) }
					trace += " SetLength"
				case 2:
					c := v.Clone()
					if !c.Equals(v) || !v.Equals(c) { t.Fatalf("%s: clone differs", trace) }
					c.SetByIndex(0, VariantFromString("w")); trace += " Clone+write"
				}
				check(v, model, trace)
			}
			poke(v, model, trace)
		}
	}
	// assign and clone against the value model: the copy has a list and elements of its own
	for n := 0; n <= 3; n++ {
		var l []*Variant
		for i := 0; i < n; i++ { l = append(l, VariantFromInteger(i)) }
		a := VariantFromArray(l)
		b := EmptyVariant(); b.Assign(a)
		if !b.Equals(a) || !a.Equals(b) { t.Fatalf("Assign: the copy differs (n=%d)", n) }
		b.SetByIndex(0, VariantFromString("w"))
		if a.Length() != n || (n > 0 && a.GetByIndex(0) != l[0]) { t.Fatalf("Assign: writing into the copy changed the original (n=%d)", n) }
		c := a.Clone()
		if !c.Equals(a) || !a.Equals(c) { t.Fatalf("Clone: the clone differs (n=%d)", n) }
		for i := 0; i < n; i++ { c.GetByIndex(i).SetAsString("z") }
		for i := 0; i < n; i++ { if a.GetByIndex(i).Type() != Integer || a.GetByIndex(i).AsInteger() != i { t.Fatalf("Clone: changing element %d of the clone changed the original (n=%d)", i, n) } }
	}
	// nested arrays (depth 2 and 3): the clone equals the original, shares no node with it at any depth, and writing into any
	// node of the clone in place leaves every leaf of the original as it was
	{
		mkNested := func() *Variant {
			inner := VariantFromArray([]*Variant{VariantFromInteger(1), VariantFromString("s"), nil})
			outer := VariantFromArray([]*Variant{inner, VariantFromInteger(3), VariantFromArray(nil)})
			return VariantFromArray([]*Variant{outer, VariantFromBoolean(true)})
		}
		var nodes func(v *Variant, acc *[]*Variant)
		nodes = func(v *Variant, acc *[]*Variant) {
			if v == nil { return }
			*acc = append(*acc, v)
			if v.Type() == Array { for i := 0; i < v.Length(); i++ { nodes(v.GetByIndex(i), acc) } }
		}
		var show func(v *Variant) string
		show = func(v *Variant) string {
			if v == nil { return "nil" }
			if v.Type() != Array { return fmt.Sprintf("%d:%v", v.Type(), v.AsObject()) }
			s := "["
			for i := 0; i < v.Length(); i++ { s += show(v.GetByIndex(i)) + "," }
			return s + "]"
		}
		orig := mkNested()
		before := show(orig)
		cl := orig.Clone()
		if !cl.Equals(orig) || !orig.Equals(cl) || show(cl) != before { t.Fatalf("Clone (nested): the clone differs: %s vs %s", show(cl), before) }
		var on, cn []*Variant
		nodes(orig, &on); nodes(cl, &cn)
		for _, x := range on { for _, y := range cn { if x == y { t.Fatalf("Clone (nested): the clone shares a node with the original (%s)", show(x)) } } }
		for _, y := range cn { if y.Type() != Array { y.SetAsString("changed") } else { y.SetByIndex(y.Length(), VariantFromInteger(7)) } }
		if show(orig) != before { t.Fatalf("Clone (nested): writing into the clone changed the original: %s, was %s", show(orig), before) }
		as := EmptyVariant(); as.Assign(orig)
		as.SetByIndex(0, VariantFromInteger(0))
		if show(orig) != before { t.Fatalf("Assign (nested): writing into the copy changed the original") }
	}
	// a nil *Variant as a host value is the Null value; objects of any Go type can be compared without a panic, symmetrically
	if v := NewVariant((*Variant)(nil)); v == nil || !v.IsNull() { t.Fatalf("NewVariant((*Variant)(nil)) is not Null") }
	if v := VariantFromObject((*Variant)(nil)); v == nil || !v.IsNull() { t.Fatalf("VariantFromObject((*Variant)(nil)) is not Null") }
	objs := []*Variant{VariantFromObject(map[string]int{"x": 1}), VariantFromObject(map[string]int{"x": 1}), VariantFromObject(map[string]int{"x": 2}), VariantFromObject([]int{1}), VariantFromObject([]int{1}),
		VariantFromObject(struct{ A any }{[]int{1}}), VariantFromObject(struct{ A int }{1}), VariantFromObject(struct{ A int }{1}), VariantFromInteger(1), EmptyVariant()}
	for i, a := range objs {
		for j, b := range objs {
			r1, r2 := a.Equals(b), b.Equals(a)
			if r1 != r2 { t.Fatalf("Equals not symmetric for objects %d, %d", i, j) }
		}
		if !a.Equals(a.Clone()) { t.Fatalf("object %d: clone differs", i) }
	}
	if !objs[0].Equals(objs[1]) || objs[0].Equals(objs[2]) || !objs[3].Equals(objs[4]) || !objs[6].Equals(objs[7]) { t.Fatalf("objects: equal payloads must be equal, different ones not") }
	scalars := []*Variant{EmptyVariant(), VariantFromInteger(1), VariantFromLong(2), VariantFromFloat(1.5), VariantFromDouble(2.5), VariantFromString("s"), VariantFromBoolean(true), VariantFromArray(nil)}
	for i, a := range scalars {
		if !a.Equals(a.Clone()) { t.Fatalf("scalar %d: clone differs", i) }
		for j, b := range scalars {
			if a.Equals(b) != b.Equals(a) { t.Fatalf("Equals not symmetric for %d, %d", i, j) }
			if i != j && a.Equals(b) { t.Fatalf("different values %d, %d equal", i, j) }
		}
	}
	// arrays: every list of length 0..3 over {nil, null, 1, 2, 1L, "1", true} against every other one: equal exactly when
	// they have the same length and the same element (by position) everywhere
	mk := []func() *Variant{func() *Variant { return nil }, EmptyVariant, func() *Variant { return VariantFromInteger(1) }, func() *Variant { return VariantFromInteger(2) },
		func() *Variant { return VariantFromLong(1) }, func() *Variant { return VariantFromString("1") }, func() *Variant { return VariantFromBoolean(true) }}
	var lists [][]int
	var genl func(cur []int)
	genl = func(cur []int) {
		lists = append(lists, append([]int{}, cur...))
		if len(cur) == 3 { return }
		for k := range mk { genl(append(cur, k)) }
	}
	genl(nil)
	build := func(l []int) *Variant {
		a := make([]*Variant, len(l))
		for i, k := range l { a[i] = mk[k]() }
		return VariantFromArray(a)
	}
	for _, l1 := range lists {
		if len(l1) == 3 && l1[0] > 2 { continue }
		a := build(l1)
		for _, l2 := range lists {
			same := len(l1) == len(l2)
			for i := 0; same && i < len(l1); i++ { same = l1[i] == l2[i] }
			b := build(l2)
			if a.Equals(b) != same || b.Equals(a) != same { t.Fatalf("arrays %v and %v: Equals = %v, %v, want %v", l1, l2, a.Equals(b), b.Equals(a), same) }
		}
	}
}
'''
        return 'variants', src, 'all pairs of arrays of length 0..3 over 7 element values (nil included) equal exactly when equal position by position; a clone of an array nested three deep shares no node with the original; all sequences of <= 3 array operations (SetByIndex/SetLength 0..6, clone) on arrays of length 0..2 (positions distinct objects, in-place writes into padded nulls); assign and clone against the value model; equality on one value per scalar type and on objects of uncomparable Go types; nil variants'

    def inputs(self):
        d = {}
        ps = {p['n']: p['t'] for p in self.func.params}
        if 'c' in ps:
            d['ctyp'] = 'c.typ'
            d['cn'] = 'len(c.value.([]*Variant))'
        if 'obj' in ps:
            d['otyp'] = 'obj.typ'
            d['on'] = 'len(obj.value.([]*Variant))'
            d['onil'] = 'obj == nil'
        if 'index' in ps:
            d['index'] = 'index'
        if 'value' in ps and ps['value'].endswith('any') or ps.get('value') == 'interface{}':
            d['vvar'] = 'typeof(value) == tyVar()'
            d['vtyp'] = 'value.(*Variant).typ'
            d['vn'] = 'len(value.(*Variant).value.([]*Variant))'
        return d

    def bounds(self):
        b = []
        ins = self.inputs()
        if 'cn' in ins:
            b.append('c.typ == Array ==> len(c.value.([]*Variant)) <= 3')
        if 'on' in ins:
            b.append('obj != nil && obj.typ == Array ==> len(obj.value.([]*Variant)) <= 3')
        if 'vn' in ins:
            b.append('typeof(value) == tyVar() && value.(*Variant).typ == Array ==> len(value.(*Variant).value.([]*Variant)) <= 3 && len(value.(*Variant).value.([]*Variant)) >= 1')
        return b

    def mk(self, typ, n, seed):
        if not isinstance(typ, int) or typ < 0 or typ > 10:
            typ = 1
        if not isinstance(n, int) or n < 0 or n > 3:
            n = 1
        return 'mkv(%d, %d, %d)' % (typ, n, seed)

    def test_source(self, vals):
        m = self.func.short
        c = self.mk(vals.get('ctyp', 1), vals.get('cn', 1), 1)
        if m in ('SetAsObject', 'NewVariant', 'VariantFromObject') and vals.get('vvar') is True:
            c = self.mk(vals.get('vtyp', 10), vals.get('vn', 1), 1)
        o = 'nil' if vals.get('onil') is True else self.mk(vals.get('otyp', 1), vals.get('on', 1), 2)
        src = '''package variants

import (
	"testing"
	"time"
)

func mkv(typ int, n int, seed int) *Variant {
	switch VariantType(typ) {
	case Null: return EmptyVariant()
	case Integer: return VariantFromInteger(seed)
	case Long: return VariantFromLong(int64(seed))
	case Float: return VariantFromFloat(float32(seed))
	case Double: return VariantFromDouble(float64(seed))
	case String: return VariantFromString("s")
	case Boolean: return VariantFromBoolean(seed%%2 == 1)
	case DateTime: return VariantFromDateTime(time.Unix(int64(seed), 0))
	case TimeSpan: return VariantFromTimeSpan(time.Duration(seed))
	case Array:
		l := []*Variant{}
		for i := 0; i < n; i++ { l = append(l, VariantFromInteger(seed*10+i)) }
		return VariantFromArray(l)
	}
	return VariantFromObject(struct{ A int }{seed})
}

func try(t *testing.T, what string, f func()) {
	defer func() {
		if r := recover(); r != nil { t.Errorf("%%s: panic: %%v", what, r) }
	}()
	f()
}

func TestVerifReplay(t *testing.T) {
	try(t, "equality", func() { replayEquality(t) })
	try(t, "copies", func() { replayCopies(t) })
}

func replayEquality(t *testing.T) {
	c := %(c)s
	var o *Variant = %(o)s
	// equality never fails and is symmetric; a clone equals its original
	cl := c.Clone()
	if !c.Equals(cl) || !cl.Equals(c) { t.Fatalf("a clone does not equal its original (type %%d)", c.Type()) }
	if o != nil && c.Equals(o) != o.Equals(c) { t.Fatalf("Equals is not symmetric") }
}

func replayCopies(t *testing.T) {
	c := %(c)s
	// mutating a clone never changes the original; a variant keeps its own copy of a list
	for _, cp := range []*Variant{c.Clone(), NewVariant(c), VariantFromObject(c)} {
		if c.Type() == Array && c.Length() > 0 {
			before := c.GetByIndex(0)
			cp.SetByIndex(0, VariantFromString("changed"))
			if c.GetByIndex(0) != before { t.Fatalf("writing element 0 of a copy changed the original array") }
		}
	}
	list := []*Variant{VariantFromInteger(1), VariantFromInteger(2)}
	for _, v := range []*Variant{VariantFromArray(list), NewVariant(list)} {
		keep := v.GetByIndex(0)
		list[0] = VariantFromInteger(7)
		if v.GetByIndex(0) != keep { t.Fatalf("a later change to the caller's list is visible in the variant") }
		list[0] = keep
	}
	// indexed writes past the end grow the array with nulls
	a := VariantFromArray(list)
	a.SetByIndex(4, VariantFromInteger(5))
	if a.Length() != 5 || !a.GetByIndex(2).IsNull() || !a.GetByIndex(3).IsNull() || a.GetByIndex(4).AsInteger() != 5 { t.Fatalf("SetByIndex past the end") }
}
''' % {'c': c, 'o': o}
        return 'variants', src


@family(r'/variants\.Type(Safe|Unsafe)VariantOperations\)\.(Convert|convertFrom)')
class ConvertFamily(Family):
    def inputs(self):
        d = {'newType': 'newType'}
        ps = {p['n'] for p in self.func.params}
        if 'value' in ps:
            d['vtyp'] = 'value.typ'
            d['pi'] = 'value.value.(int)'
            d['pl'] = 'value.value.(int64)'
            d['pd'] = 'value.value.(time.Duration)'
            d['pb'] = 'value.value.(bool)'
        return d

    def bounds(self):
        if 'vtyp' in self.inputs():
            return ['value.typ == Integer ==> -1000000 <= value.value.(int) && value.value.(int) <= 1000000',
                    'value.typ == Long ==> -1000000 <= value.value.(int64) && value.value.(int64) <= 1000000']
        return []

    def test_source(self, vals):
        safe = 'TypeSafe' in self.obl.fn
        vt = vals.get('vtyp', 0)
        if not isinstance(vt, int) or vt < 0 or vt > 10:
            vt = 0
        if self.func.short.startswith('convertFrom') and self.func.short != 'convertFromNull':
            names = {'Integer': 1, 'Long': 2, 'Float': 3, 'Double': 4, 'String': 5, 'Boolean': 6, 'DateTime': 7, 'TimeSpan': 8}
            vt = names.get(self.func.short[len('convertFrom'):], vt)
        nt = vals.get('newType', 0)
        if not isinstance(nt, int) or nt < 0 or nt > 10:
            nt = 0
        pay = 0
        for k in ('pi', 'pl', 'pd'):
            if isinstance(vals.get(k), int) and vals[k] != 0:
                pay = vals[k]
        if abs(pay) > 2 ** 62:
            pay = 12345
        src = '''package variants

import (
	"testing"
	"time"
)

func mkconv(typ VariantType, p int64) *Variant {
	switch typ {
	case Null: return EmptyVariant()
	case Integer: return VariantFromInteger(int(p))
	case Long: return VariantFromLong(p)
	case Float: return VariantFromFloat(float32(p %% 1000))
	case Double: return VariantFromDouble(float64(p %% 1000000))
	case String: return VariantFromString("12")
	case Boolean: return VariantFromBoolean(p %% 2 != 0)
	case DateTime: return VariantFromDateTime(time.Unix(p %% 4000000000, 0))
	case TimeSpan: return VariantFromTimeSpan(time.Duration(p))
	case Array: return VariantFromArray([]*Variant{VariantFromInteger(1)})
	}
	return VariantFromObject(struct{ A int }{1})
}

func widening(from, to VariantType) bool {
	return (from == Integer && (to == Long || to == Float || to == Double)) || (from == Long && (to == Float || to == Double)) || (from == Float && to == Double)
}

func TestVerifReplay(t *testing.T) {
	safe := %(safe)s
	var ops IVariantOperations = NewTypeUnsafeVariantOperations()
	if safe { ops = NewTypeSafeVariantOperations() }
	from, to, p := VariantType(%(vt)d), VariantType(%(nt)d), int64(%(pay)d)
	v := mkconv(from, p)
	r, err := ops.Convert(v, to)
	if (r != nil) == (err != nil) { t.Fatalf("Convert(%%d -> %%d): result %%v and error %%v", from, to, r, err) }
	if err != nil {
		if safe || to == Null || to == Object || to == from { if to == Null || to == Object || to == from || widening(from, to) { t.Fatalf("permitted conversion %%d -> %%d failed: %%v", from, to, err) } }
		return
	}
	if safe && !(to == Null || to == Object || to == from || widening(from, to)) {
		t.Fatalf("type-safe manager converted %%d -> %%d without error (result type %%d)", from, to, r.Type())
	}
	switch {
	case to == Null: if r.Type() != Null { t.Fatalf("Null requested, got type %%d", r.Type()) }
	case to == Object || to == from: if r != v { t.Fatalf("own type / Object requested but the value was not returned unchanged") }
	default: if r.Type() != to { t.Fatalf("requested type %%d, got a value of type %%d", to, r.Type()) }
	}
	// payload formulas of the statement and round trips of the widening conversions
	if (from == Integer || from == Long) && to == TimeSpan {
		if r.AsTimeSpan() != time.Duration(p)*time.Millisecond { t.Fatalf("%%d ms converted to time span %%v", p, r.AsTimeSpan()) }
	}
	if (from == Integer || from == Long) && (to == TimeSpan || to == DateTime || to == Long || to == Integer) && p > -9000000000000 && p < 9000000000000 {
		back, err2 := NewTypeUnsafeVariantOperations().Convert(r, from)
		if err2 != nil { t.Fatalf("converting back failed: %%v", err2) }
		if !back.Equals(v) { t.Fatalf("round trip %%d -> %%d -> %%d: %%v became %%v", from, to, from, v, back) }
	}
}
''' % {'safe': 'true' if safe else 'false', 'vt': vt, 'nt': nt, 'pay': pay}
        return 'variants', src


@family(r'/variants\.AbstractVariantOperations\)\.')
class OpsFamily(Family):
    """operands rebuilt from their variant types and integer payloads; the operator is run under both
    managers and compared with the host arithmetic of the first operand's type"""

    def inputs(self):
        ps = {p['n'] for p in self.func.params}
        d = {}
        for v in ('value1', 'value2', 'value'):
            if v in ps:
                d[v + '_t'] = v + '.typ'
                d[v + '_i'] = v + '.value.(int)'
                d[v + '_l'] = v + '.value.(int64)'
                d[v + '_n'] = 'len(' + v + '.value.([]*Variant))'
        return d

    def bounds(self):
        b = []
        for v in ('value1', 'value2', 'value'):
            if v + '_t' in self.inputs():
                b.append('%s.typ == Integer ==> -50 <= %s.value.(int) && %s.value.(int) <= 50' % (v, v, v))
                b.append('%s.typ == Long ==> -50 <= %s.value.(int64) && %s.value.(int64) <= 50' % (v, v, v))
                b.append('%s.typ == Array ==> len(%s.value.([]*Variant)) <= 3' % (v, v))
        return b

    @classmethod
    def bounded_source(cls, prog, fname):
        src = '''package variants

import (
	"math"
	"testing"
	"time"
)

// bounded stand-in: all 21 operators x all pairs of sample values (several per variant type, including
// 0, negatives, NaN, infinities) x both managers: never a panic, exactly one of result/error, host arithmetic
// for same-type numeric operands, and the comparison-consistency laws of the statement
func bsamples() []*Variant {
	nan := math.NaN()
	return []*Variant{EmptyVariant(), VariantFromInteger(0), VariantFromInteger(3), VariantFromInteger(-2), VariantFromInteger(10), VariantFromInteger(40),
		VariantFromLong(0), VariantFromLong(5), VariantFromLong(-7), VariantFromFloat(1.5), VariantFromFloat(float32(nan)), VariantFromFloat(0),
		VariantFromDouble(2.25), VariantFromDouble(nan), VariantFromDouble(math.Inf(1)), VariantFromDouble(0), VariantFromDouble(-3),
		VariantFromString("a"), VariantFromString("b"), VariantFromString("h\u00e9llo \u65e5\u672c"), VariantFromBoolean(true), VariantFromBoolean(false),
		VariantFromInteger(7), VariantFromLong(9), VariantFromInteger(1),
		VariantFromDateTime(time.Unix(100, 0)), VariantFromDateTime(time.Unix(200, 0)), VariantFromTimeSpan(time.Second), VariantFromTimeSpan(-time.Millisecond),
		VariantFromArray([]*Variant{VariantFromInteger(1), VariantFromInteger(2)}), VariantFromArray([]*Variant{VariantFromDouble(2.25), VariantFromString("3"), VariantFromLong(5)}), VariantFromArray(nil)}
}

func bcall(t *testing.T, what string, f func() (*Variant, error)) (r *Variant, err error, ok bool) {
	defer func() {
		if p := recover(); p != nil { t.Errorf("%s: panic: %v", what, p); ok = false }
	}()
	r, err = f()
	if (r != nil) == (err != nil) { t.Errorf("%s: result %v and error %v", what, r, err); return r, err, false }
	return r, err, true
}

func TestVerifReplay(t *testing.T) {
	for mi, ops := range []IVariantOperations{NewTypeUnsafeVariantOperations(), NewTypeSafeVariantOperations()} {
		type binop struct { name string; f func(a, b *Variant) (*Variant, error) }
		bin := []binop{{"Add", ops.Add}, {"Sub", ops.Sub}, {"Mul", ops.Mul}, {"Div", ops.Div}, {"Mod", ops.Mod}, {"Pow", ops.Pow}, {"And", ops.And}, {"Or", ops.Or},
			{"Xor", ops.Xor}, {"Lsh", ops.Lsh}, {"Rsh", ops.Rsh}, {"Equal", ops.Equal}, {"NotEqual", ops.NotEqual}, {"More", ops.More}, {"Less", ops.Less},
			{"MoreEqual", ops.MoreEqual}, {"LessEqual", ops.LessEqual}, {"In", ops.In}, {"GetElement", ops.GetElement}}
		for _, a := range bsamples() {
			bcall(t, "Not", func() (*Variant, error) { return ops.Not(a) })
			bcall(t, "Negative", func() (*Variant, error) { return ops.Negative(a) })
			for _, b := range bsamples() {
				res := map[string]*Variant{}
				for _, o := range bin {
					o := o
					what := o.name
					r, err, ok := bcall(t, what, func() (*Variant, error) { return o.f(a, b) })
					if ok && err == nil { res[o.name] = r }
					if !ok || err != nil || a.Type() == Null || b.Type() == Null { continue }
					if a.Type() == Integer && b.Type() == Integer {
						x, y := a.AsInteger(), b.AsInteger()
						want, has := 0, true
						switch o.name {
						case "Add": want = x + y
						case "Sub": want = x - y
						case "Mul": want = x * y
						case "Div": want = x / y
						case "Mod": want = x % y
						case "And": want = x & y
						case "Or": want = x | y
						case "Xor": want = x ^ y
						case "Lsh": want = x << y
						case "Rsh": want = x >> y
						default: has = false
						}
						if has && (r.Type() != Integer || r.AsInteger() != want) { t.Errorf("manager %d: %d %s %d = %v, host arithmetic gives %d", mi, x, o.name, y, r, want) }
					}
					if o.name == "Pow" && (a.Type() == Integer || a.Type() == Long || a.Type() == Double) && b.Type() == a.Type() {
						toF := func(v *Variant) float64 { c, _ := NewTypeUnsafeVariantOperations().Convert(v, Double); return c.AsDouble() }
						want := math.Pow(toF(a), toF(b))
						if r.Type() != Double || (r.AsDouble() != want && !(math.IsNaN(want) && math.IsNaN(r.AsDouble()))) { t.Errorf("manager %d: %v ^ %v = %v, true exponentiation gives %v", mi, toF(a), toF(b), r, want) }
					}
					if a.Type() == Double && b.Type() == Double {
						x, y := a.AsDouble(), b.AsDouble()
						var want, has = false, true
						switch o.name {
						case "Equal": want = x == y
						case "NotEqual": want = x != y
						case "More": want = x > y
						case "Less": want = x < y
						case "MoreEqual": want = x >= y
						case "LessEqual": want = x <= y
						default: has = false
						}
						if has && (r.Type() != Boolean || r.AsBoolean() != want) { t.Errorf("manager %d: %v %s %v = %v, host arithmetic gives %v", mi, x, o.name, y, r, want) }
					}
				}
				// membership: the searched value is compared with each element as Equal(value, element) - the element is
				// converted to the type of the searched value (first-operand rule), never the other way round
				if a.Type() == Array && b.Type() != Null {
					want, wantErr := false, false
					for _, el := range a.AsArray() {
						eq, e := ops.Equal(b, el)
						if e != nil { wantErr = true; break }
						if eq.Type() == Boolean && eq.AsBoolean() { want = true; break }
					}
					r, e := ops.In(a, b)
					switch {
					case wantErr != (e != nil): t.Errorf("manager %d: %v IN %v: error %v, comparing the value with each element gives error=%v", mi, b, a, e, wantErr)
					case e == nil && (r.Type() != Boolean || r.AsBoolean() != want): t.Errorf("manager %d: %v IN %v = %v, comparing the value with each element gives %v", mi, b, a, r, want)
					}
				}
				// "indexing follow[s] list semantics ... index out of range yields an error": element i of an array, character i of a
				// string (counted in characters, not bytes), an error for every other index
				if (a.Type() == Array || a.Type() == String) && b.Type() == Integer {
					i := b.AsInteger()
					r, e := ops.GetElement(a, b)
					if a.Type() == Array {
						l := a.AsArray()
						if i < 0 || i >= len(l) { if e == nil { t.Errorf("manager %d: %v[%d]: no error for an index out of range (result %v)", mi, a, i, r) } } else if e != nil || r != l[i] { t.Errorf("manager %d: %v[%d] = %v, %v", mi, a, i, r, e) }
					} else {
						rs := []rune(a.AsString())
						if i < 0 || i >= len(rs) { if e == nil { t.Errorf("manager %d: %q[%d]: no error for an index out of range (result %v)", mi, a.AsString(), i, r) } } else if e != nil || r.Type() != String || r.AsString() != string(rs[i]) { t.Errorf("manager %d: %q[%d] = %v, %v", mi, a.AsString(), i, r, e) }
					}
				}
				// comparison consistency for equal types
				if a.Type() == b.Type() && a.Type() != Null {
					bv := func(n string) (bool, bool) { r, ok := res[n]; if !ok || r.Type() != Boolean { return false, false }; return r.AsBoolean(), true }
					lt, ok1 := bv("Less"); eq, ok2 := bv("Equal"); le, ok3 := bv("LessEqual"); ne, ok4 := bv("NotEqual")
					if ok1 && ok2 && ok3 && le != (lt || eq) { t.Errorf("manager %d: a<=b is %v but a<b is %v and a=b is %v (types %d)", mi, le, lt, eq, a.Type()) }
					if ok2 && ok4 && ne == eq { t.Errorf("manager %d: a<>b equals a=b", mi) }
					if r2, err := ops.More(b, a); ok1 && err == nil && r2.Type() == Boolean && r2.AsBoolean() != lt { t.Errorf("manager %d: a<b is %v but b>a is %v", mi, lt, r2.AsBoolean()) }
					gt, ok5 := bv("More"); ge, ok6 := bv("MoreEqual")
					if ok5 && ok2 && ok6 && ge != (gt || eq) { t.Errorf("manager %d: a>=b is %v but a>b is %v and a=b is %v (types %d)", mi, ge, gt, eq, a.Type()) }
				}
			}
		}
	}
}
'''
        return 'variants', src, 'all operators x all pairs of 32 sample values (every variant type; 0, negatives, NaN, +Inf, mixed-type arrays, a non-ASCII string with indexes between its character and byte count) x both managers'

    def operand(self, vals, v):
        t = vals.get(v + '_t', 1)
        if not isinstance(t, int) or t < 0 or t > 10:
            t = 1
        p = 0
        if t == 1 and isinstance(vals.get(v + '_i'), int):
            p = vals[v + '_i']
        if t == 2 and isinstance(vals.get(v + '_l'), int):
            p = vals[v + '_l']
        if abs(p) > 10 ** 6:
            p = 3
        n = vals.get(v + '_n', 1)
        if not isinstance(n, int) or n < 0 or n > 3:
            n = 1
        return 'mkop(%d, %d, %d)' % (t, p, n)

    def test_source(self, vals):
        name = self.func.short
        unary = name in ('Not', 'Negative')
        v1 = self.operand(vals, 'value' if unary else 'value1')
        v2 = 'nil' if unary else self.operand(vals, 'value2')
        src = '''package variants

import (
	"math"
	"testing"
	"time"
)

func mkop(typ int, p int, n int) *Variant {
	switch VariantType(typ) {
	case Null: return EmptyVariant()
	case Integer: return VariantFromInteger(p)
	case Long: return VariantFromLong(int64(p))
	case Float: return VariantFromFloat(float32(p) + 0.5)
	case Double: return VariantFromDouble(float64(p) + 0.25)
	case String: return VariantFromString("abc")
	case Boolean: return VariantFromBoolean(p%%2 != 0)
	case DateTime: return VariantFromDateTime(time.Unix(int64(1000+p), 0))
	case TimeSpan: return VariantFromTimeSpan(time.Duration(p) * time.Millisecond)
	case Array:
		l := []*Variant{}
		for i := 0; i < n; i++ { l = append(l, VariantFromInteger(i)) }
		return VariantFromArray(l)
	}
	return VariantFromObject(struct{ A int }{p})
}

func applyOp(ops IVariantOperations, name string, a, b *Variant) (*Variant, error) {
	switch name {
	case "Add": return ops.Add(a, b)
	case "Sub": return ops.Sub(a, b)
	case "Mul": return ops.Mul(a, b)
	case "Div": return ops.Div(a, b)
	case "Mod": return ops.Mod(a, b)
	case "Pow": return ops.Pow(a, b)
	case "And": return ops.And(a, b)
	case "Or": return ops.Or(a, b)
	case "Xor": return ops.Xor(a, b)
	case "Lsh": return ops.Lsh(a, b)
	case "Rsh": return ops.Rsh(a, b)
	case "Not": return ops.Not(a)
	case "Negative": return ops.Negative(a)
	case "Equal": return ops.Equal(a, b)
	case "NotEqual": return ops.NotEqual(a, b)
	case "More": return ops.More(a, b)
	case "Less": return ops.Less(a, b)
	case "MoreEqual": return ops.MoreEqual(a, b)
	case "LessEqual": return ops.LessEqual(a, b)
	case "In": return ops.In(a, b)
	case "GetElement": return ops.GetElement(a, b)
	}
	return nil, nil
}

func TestVerifReplay(t *testing.T) {
	name := "%(name)s"
	for _, ops := range []IVariantOperations{NewTypeUnsafeVariantOperations(), NewTypeSafeVariantOperations()} {
		a, b := %(v1)s, %(v2)s
		r, err := applyOp(ops, name, a, b) // a panic here fails the test: undefined operations must be errors
		if (r != nil) == (err != nil) { t.Fatalf("%%s: result %%v and error %%v", name, r, err) }
		if b == nil || a.Type() == Null || b.Type() == Null { continue }
		numeric := func(v *Variant) bool { return v.Type() == Integer || v.Type() == Long || v.Type() == Float || v.Type() == Double }
		if name == "Pow" && numeric(a) && b.Type() == a.Type() {
			if err != nil { t.Fatalf("'^' rejected numeric operands of type %%d: %%v", a.Type(), err) }
			toF := func(v *Variant) float64 { c, _ := NewTypeUnsafeVariantOperations().Convert(v, Double); return c.AsDouble() }
			if want := math.Pow(toF(a), toF(b)); r.AsDouble() != want && !(math.IsNaN(want) && math.IsNaN(r.AsDouble())) { t.Fatalf("%%v ^ %%v = %%v, true exponentiation gives %%v", toF(a), toF(b), r.AsDouble(), want) }
		}
		if a.Type() == Integer && b.Type() == Integer && err == nil {
			x, y := a.AsInteger(), b.AsInteger()
			want, ok := 0, true
			switch name {
			case "Add": want = x + y
			case "Sub": want = x - y
			case "Mul": want = x * y
			case "Div": want = x / y
			case "Mod": want = x %% y
			case "Lsh": want = x << y
			case "Rsh": want = x >> y
			default: ok = false
			}
			if ok && r.AsInteger() != want { t.Fatalf("%%d %%s %%d = %%d, host arithmetic gives %%d", x, name, y, r.AsInteger(), want) }
		}
	}
}
''' % {'name': name, 'v1': v1, 'v2': v2}
        return 'variants', src


TOKENIZER_TEST = '''package csv_test

import (
	"strings"
	"testing"

	ctok "github.com/pip-services3-gox/pip-services3-expressions-gox/calculator/tokenizers"
	"github.com/pip-services3-gox/pip-services3-expressions-gox/csv"
	"github.com/pip-services3-gox/pip-services3-expressions-gox/io"
	mtok "github.com/pip-services3-gox/pip-services3-expressions-gox/mustache/tokenizers"
	"github.com/pip-services3-gox/pip-services3-expressions-gox/tokenizers"
	"github.com/pip-services3-gox/pip-services3-expressions-gox/tokenizers/generic"
)

// C04 / C12 on whole inputs: with no option enabled the token values concatenate to the input, every token
// but the final end-of-input marker is non-empty, and every token reports the line/column of its first
// character as a fresh forward scan counts them. Inputs: the counterexample content (if any) and every
// string up to length %(maxlen)d over an alphabet that reaches every tokenizer state.
func vcheck(t *testing.T, name string, tk tokenizers.ITokenizer, input string) bool {
	ok := true
	func() {
		defer func() {
			if r := recover(); r != nil { t.Errorf("%%s tokenizer on %%q: panic: %%v", name, input, r); ok = false }
		}()
		tk.SetSkipUnknown(false); tk.SetSkipWhitespaces(false); tk.SetSkipComments(false); tk.SetSkipEof(false)
		tk.SetMergeWhitespaces(false); tk.SetUnifyNumbers(false); tk.SetDecodeStrings(false)
		toks := tk.TokenizeBuffer(input)
		var sb strings.Builder
		pos := 0
		runes := []rune(input)
		ref := io.NewStringScanner(input)
		refpos := 0
		for i, tok := range toks {
			if tok.Type() == tokenizers.Eof {
				if i != len(toks)-1 { t.Errorf("%%s on %%q: end-of-input token in the middle", name, input); ok = false }
				continue
			}
			if tok.Value() == "" { t.Errorf("%%s on %%q: empty token #%%d", name, input, i); ok = false; return }
			// position of the first character in a forward scan
			for refpos < pos { ref.Read(); refpos++ }
			wl, wc := ref.PeekLine(), ref.PeekColumn()
			if tok.Line() != wl || tok.Column() != wc { t.Errorf("%%s on %%q: token %%q reports (%%d,%%d), its first character is at (%%d,%%d)", name, input, tok.Value(), tok.Line(), tok.Column(), wl, wc); ok = false; return }
			sb.WriteString(tok.Value())
			pos += len([]rune(tok.Value()))
		}
		if sb.String() != string(runes) { t.Errorf("%%s on %%q: token values concatenate to %%q", name, input, sb.String()); ok = false }
	}()
	return ok
}

func TestVerifReplay(t *testing.T) {
	mk := map[string]func() tokenizers.ITokenizer{
		"generic": func() tokenizers.ITokenizer { return generic.NewGenericTokenizer() },
		"expression": func() tokenizers.ITokenizer { return ctok.NewExpressionTokenizer() },
		"csv": func() tokenizers.ITokenizer { return csv.NewCsvTokenizer() },
		"mustache": func() tokenizers.ITokenizer { return mtok.NewMustacheTokenizer() },
	}
	alphabet := []rune{'a', '1', '-', '.', '/', '*', ' ', '"', '\\'', '\\n', '<', '=', '>', '{', '}', 'e', 0xe9, 0x2212}
	var inputs []string
	%(extra)s
	var gen func(cur []rune, n int)
	gen = func(cur []rune, n int) {
		inputs = append(inputs, string(cur))
		if n == 0 { return }
		for _, ch := range alphabet { gen(append(cur, ch), n-1) }
	}
	gen(nil, %(maxlen)d)
	// sequences of multi-character symbols (the cached symbol texts must not influence each other)
	symbols := []string{"<=", "<>", "<<", ">=", ">>", "!=", "<", "="}
	for _, a := range symbols { for _, b := range symbols { for _, c := range symbols { inputs = append(inputs, "x"+a+"y"+b+"z"+c+"w") } } }
	// characters a reader might be tempted to treat specially at the very start or end: byte-order mark, NUL, U+FFFE/U+FFFF, a non-BMP character
	for _, ch := range []string{"\\ufeff", "\\x00", "\\ufffe", "\\uffff", "\\U0001F600", "\\u2028"} { inputs = append(inputs, ch+"id,name", "a"+ch+"b", "ab "+ch, ch) }
	bad := 0
	for _, in := range inputs {
		for name, f := range mk {
			if !vcheck(t, name, f(), in) { bad++ }
			if bad > 5 { t.Fatalf("stopping after %%d failing inputs", bad) }
		}
	}
	// the same statement on ONE instance of each tokenizer fed all inputs in turn (unterminated literals and comments included):
	// nothing a state keeps from one input may leak into the text of the next
	for name, f := range mk {
		tk := f()
		for _, in := range inputs {
			if !vcheck(t, name+" (reused)", tk, in) { bad++ }
			if bad > 5 { t.Fatalf("stopping after %%d failing inputs", bad) }
		}
	}
}
'''


@family(r'/tokenizers/generic\.|/calculator/tokenizers\.|/csv\.|/mustache/tokenizers\.|/tokenizers\.AbstractTokenizer')
class TokenizerFamily(Family):
    MAXN = 6

    def inputs(self):
        d = {}
        ps = {p['n'] for p in self.func.params}
        if 'scanner' in ps:
            d['n'] = 'len(sc(scanner).content)'
            for i in range(self.MAXN):
                d['r%d' % i] = 'sc(scanner).content[%d]' % i
        return d

    def bounds(self):
        if 'scanner' in {p['n'] for p in self.func.params}:
            return ['len(sc(scanner).content) <= %d' % self.MAXN]
        return []

    @classmethod
    def source(cls, extra, maxlen=3):
        return TOKENIZER_TEST % {'extra': extra, 'maxlen': maxlen}

    def test_source(self, vals):
        n = vals.get('n', 0)
        extra = ''
        if isinstance(n, int) and 0 < n <= self.MAXN:
            extra = 'inputs = append(inputs, string(%s))' % go_runes(vals, 'r', n)
        return 'csv', self.source(extra)

    @classmethod
    def bounded_source(cls, prog, fname):
        return 'csv', cls.source('', 4), 'every input up to length 4 over an 18-character alphabet (letters, digit, sign, the typographic minus U+2212, dot, slash, star, blank, quotes, LF, <=>, braces, e, e-acute) x the four built-in tokenizers, no options'


SYMBOL_TEST = '''package generic

import (
	"testing"

	"github.com/pip-services3-gox/pip-services3-expressions-gox/io"
	"github.com/pip-services3-gox/pip-services3-expressions-gox/tokenizers"
)

// C16 on whole symbol tables (bounded): every set of up to 3 symbols of length 1..3 over {<, =, >} in every
// registration order, each with its own token type, against every input up to length 5 over {<, =, >, a}:
// the state must return the longest registered symbol that is a prefix of the remaining input (else the single
// next character as Symbol), with that symbol's type and text, consuming exactly that many characters - also
// on a second pass over the same table (reading other symbols must not alter the text of existing ones).
func TestVerifReplay(t *testing.T) {
	// the same over symbols made of characters above U+00FF (the child tables of the nodes keep those in their interval list)
	for _, abc := range [][]rune{{'<', '=', '>'}, {0x2264, 0x2265, '='}} { runSymbols(t, abc) }
}

func runSymbols(t *testing.T, abc []rune) {
	var syms []string
	var gs func(cur []rune, n int)
	gs = func(cur []rune, n int) { if len(cur) > 0 { syms = append(syms, string(cur)) }; if n == 0 { return }; for _, c := range abc { gs(append(cur, c), n-1) } }
	gs(nil, 3)
	var inputs []string
	var gi func(cur []rune, n int)
	gi = func(cur []rune, n int) { if len(cur) > 0 { inputs = append(inputs, string(cur)) }; if n == 0 { return }; for _, c := range append(append([]rune{}, abc...), 'a') { gi(append(cur, c), n-1) } }
	gi(nil, %(inlen)d)
	check := func(reg []string) {
		st := NewGenericSymbolState()
		typ := map[string]int{}
		// symbols are registered one at a time and the table is exercised after every registration
		// (registering further symbols must not alter what is reported for existing ones)
		for i, s := range reg {
		st.Add(s, 100+i); typ[s] = 100 + i
		for pass := 0; pass < 2; pass++ {
			for _, in := range inputs {
				runes := []rune(in)
				sc := io.NewStringScanner(in)
				pos := 0
				for pos < len(runes) {
					tok := st.NextToken(sc, nil)
					want := string(runes[pos : pos+1]); wtyp := tokenizers.Symbol
					if ty, ok := typ[want]; ok { wtyp = ty }
					for l := 4; l >= 2; l-- {
						if pos+l <= len(runes) { if ty, ok := typ[string(runes[pos:pos+l])]; ok { want = string(runes[pos : pos+l]); wtyp = ty; break } }
					}
					if tok.Value() != want || tok.Type() != wtyp {
						t.Fatalf("symbols %%q, input %%q at %%d (pass %%d): got %%q type %%d, longest registered prefix is %%q type %%d", reg, in, pos, pass, tok.Value(), tok.Type(), want, wtyp)
					}
					pos += len([]rune(want))
					// exact consumption
					rest := io.NewStringScanner(in); for i := 0; i < pos; i++ { rest.Read() }
					if sc.Peek() != rest.Peek() { t.Fatalf("symbols %%q, input %%q: consumed a wrong number of characters after %%q", reg, in, want) }
				}
			}
		}
		}
	}
	// longer symbols with a proper prefix registered before or after them (a node deeper than the newly
	// registered symbol must fall back to it)
	var four []string
	var g4 func(cur []rune)
	g4 = func(cur []rune) { if len(cur) == 4 { four = append(four, string(cur)); return }; for _, c := range abc { g4(append(cur, c)) } }
	g4(nil)
	for _, s4 := range four {
		for _, pl := range []int{2, 3} {
			check([]string{s4, s4[:pl]})
			check([]string{s4[:pl], s4})
		}
	}
	n := len(syms)
	for i := 0; i < n; i++ {
		check([]string{syms[i]})
		for j := 0; j < n; j++ {
			if j == i { continue }
			check([]string{syms[i], syms[j]})
			for k := 0; k < n; k += %(kstep)d {
				if k == i || k == j { continue }
				check([]string{syms[i], syms[j], syms[k]})
			}
		}
	}
}
'''


@family(r'/tokenizers/generic\.Symbol|/tokenizers/generic\.GenericSymbolState')
class SymbolFamily(Family):
    @classmethod
    def source(cls, inlen=4, kstep=11):
        return SYMBOL_TEST % {'inlen': inlen, 'kstep': kstep}

    def inputs(self):
        return {}

    def test_source(self, vals):
        return 'tokenizers/generic', self.source()

    @classmethod
    def bounded_source(cls, prog, fname):
        return ('tokenizers/generic', cls.source(),
                'symbol sets of size <= 3 (length 1..3 over {<,=,>} and over {U+2264,U+2265,=}, every order; third symbol sampled every 11th; the table is exercised after every single registration) x inputs up to length 4 over {<,=,>,a}, two passes')


QUOTE_TEST = '''package csv_test

import (
	"testing"

	ctok "github.com/pip-services3-gox/pip-services3-expressions-gox/calculator/tokenizers"
	"github.com/pip-services3-gox/pip-services3-expressions-gox/csv"
	"github.com/pip-services3-gox/pip-services3-expressions-gox/io"
	"github.com/pip-services3-gox/pip-services3-expressions-gox/tokenizers"
	"github.com/pip-services3-gox/pip-services3-expressions-gox/tokenizers/generic"
)

// C14 (bounded): every string up to length %(n)d over {a, ', ", e-acute, U+00AB} and the quote characters ', ", U+00AB:
// decoding never fails; decode(encode(s)) == s; for the expression and CSV states the encoded form placed in a
// stream (followed by end of input or by a non-quote character) is read back as exactly one token whose
// decoded value is s.
func TestVerifReplay(t *testing.T) {
	states := map[string]tokenizers.IQuoteState{"generic": generic.NewGenericQuoteState(), "expression": ctok.NewExpressionQuoteState(), "csv": csv.NewCsvQuoteState()}
	abc := []rune{'a', 39, 34, 0xe9, 0xab}
	var strs []string
	var gen func(cur []rune, n int)
	gen = func(cur []rune, n int) { strs = append(strs, string(cur)); if n == 0 { return }; for _, c := range abc { gen(append(cur, c), n-1) } }
	gen(nil, %(n)d)
	for name, st := range states {
		for _, q := range []rune{39, 34, 0xab} {
			for _, s := range strs {
				func() {
					defer func() { if r := recover(); r != nil { t.Fatalf("%%s state: DecodeString(%%q, %%q) panicked: %%v", name, s, string(q), r) } }()
					st.DecodeString(s, q)
				}()
				if name == "generic" && len(s) > 0 && containsRune(s, q) { continue } // the generic state does not escape embedded quotes
				enc := st.EncodeString(s, q)
				if dec := st.DecodeString(enc, q); dec != s { t.Fatalf("%%s state: decode(encode(%%q, %%q)) = %%q (encoded %%q)", name, s, string(q), dec, enc) }
				if name == "generic" { continue }
				for _, tail := range []string{"", "a", " "} {
					sc := io.NewStringScanner(enc + tail)
					tok := st.NextToken(sc, nil)
					if tok.Value() != enc { t.Fatalf("%%s state: %%q in a stream was read back as token %%q", name, enc+tail, tok.Value()) }
					if st.DecodeString(tok.Value(), q) != s { t.Fatalf("%%s state: token %%q decodes to %%q, want %%q", name, tok.Value(), st.DecodeString(tok.Value(), q), s) }
				}
			}
		}
	}
	streams(t)
}

func containsRune(s string, q rune) bool { for _, r := range s { if r == q { return true } }; return false }

// the same through whole tokenizers with string decoding on (as both parsers use them): the encoded form - of the empty
// string too - comes back as one token whose value is the original string
func streams(t *testing.T) {
	abc := []rune{'a', 39, 34, 0xe9}
	var strs []string
	var gen func(cur []rune, n int)
	gen = func(cur []rune, n int) { strs = append(strs, string(cur)); if n == 0 { return }; for _, c := range abc { gen(append(cur, c), n-1) } }
	gen(nil, 3)
	type tcase struct { name string; tk tokenizers.ITokenizer; st tokenizers.IQuoteState; quotes []rune }
	ct := csv.NewCsvTokenizer()
	ct.SetQuoteSymbols([]rune{34, 39})
	cases := []tcase{{"expression", ctok.NewExpressionTokenizer(), ctok.NewExpressionQuoteState(), []rune{39, 34}}, {"csv", ct, csv.NewCsvQuoteState(), []rune{34, 39}}}
	for _, c := range cases {
		c.tk.SetDecodeStrings(true)
		for _, q := range c.quotes {
			for _, s := range strs {
				enc := c.st.EncodeString(s, q)
				for _, tail := range []string{"", " x"} {
					toks := c.tk.TokenizeBuffer(enc + tail)
					if len(toks) == 0 || toks[0].Value() != s || (toks[0].Type() != tokenizers.Quoted && toks[0].Type() != tokenizers.Word) {
						var got []string
						for _, tk := range toks { got = append(got, tk.Value()) }
						t.Fatalf("%%s tokenizer, decoding on: %%q reads as %%q, the first token should be the string %%q", c.name, enc+tail, got, s)
					}
				}
			}
		}
	}
}
'''


@family(r'QuoteState\)\.(EncodeString|DecodeString)')
class QuoteFamily(Family):
    def test_source(self, vals):
        return 'csv', QUOTE_TEST % {'n': 4}

    @classmethod
    def bounded_source(cls, prog, fname):
        return 'csv', QUOTE_TEST % {'n': 4}, 'all strings up to length 4 over {a, single quote, double quote, e-acute, U+00AB} x quote characters {single, double, U+00AB} x the three quote states; the encoded strings (the empty one too) read back through the expression and CSV tokenizers with decoding on'


OPTIONS_TEST = '''package csv_test

import (
	"fmt"
	"testing"
	"time"

	ctok "github.com/pip-services3-gox/pip-services3-expressions-gox/calculator/tokenizers"
	"github.com/pip-services3-gox/pip-services3-expressions-gox/csv"
	mtok "github.com/pip-services3-gox/pip-services3-expressions-gox/mustache/tokenizers"
	"github.com/pip-services3-gox/pip-services3-expressions-gox/tokenizers"
	"github.com/pip-services3-gox/pip-services3-expressions-gox/tokenizers/generic"
)

// C15 (bounded): for each of the 128 option sets the token stream must equal the option-free stream with whole
// tokens removed or rewritten, as the statement describes; a tokenizer that does not return within 2 s hangs.
type vtok struct { typ int; val string; line, col int }

func vrun(mk func() tokenizers.ITokenizer, opts int, input string) ([]vtok, error) {
	ch := make(chan []vtok, 1)
	er := make(chan error, 1)
	go func() {
		defer func() { if r := recover(); r != nil { er <- fmt.Errorf("panic: %%v", r) } }()
		tk := mk()
		tk.SetSkipUnknown(opts&1 != 0); tk.SetSkipWhitespaces(opts&2 != 0); tk.SetSkipComments(opts&4 != 0); tk.SetSkipEof(opts&8 != 0)
		tk.SetMergeWhitespaces(opts&16 != 0); tk.SetUnifyNumbers(opts&32 != 0); tk.SetDecodeStrings(opts&64 != 0)
		var out []vtok
		for _, t := range tk.TokenizeBuffer(input) { out = append(out, vtok{t.Type(), t.Value(), t.Line(), t.Column()}) }
		ch <- out
	}()
	select {
	case o := <-ch: return o, nil
	case e := <-er: return nil, e
	case <-time.After(2 * time.Second): return nil, fmt.Errorf("no result after 2s (hang)")
	}
}

func TestVerifReplay(t *testing.T) {
	mks := map[string]func() tokenizers.ITokenizer{
		"generic": func() tokenizers.ITokenizer { return generic.NewGenericTokenizer() },
		"expression": func() tokenizers.ITokenizer { return ctok.NewExpressionTokenizer() },
		"csv": func() tokenizers.ITokenizer { return csv.NewCsvTokenizer() },
		"mustache": func() tokenizers.ITokenizer { return mtok.NewMustacheTokenizer() },
	}
	alphabet := []rune{'a', '1', ' ', '\\t', '"', '/', '*', '.', 0x1F600, '\\n', '<'}
	var inputs []string
	%(extra)s
	var gen func(cur []rune, n int)
	gen = func(cur []rune, n int) { inputs = append(inputs, string(cur)); if n == 0 { return }; for _, c := range alphabet { gen(append(cur, c), n-1) } }
	gen(nil, %(maxlen)d)
	inputs = append(inputs, "1 /*c*/ 2", "a /*c*/ /*d*/  b", "1\\U0001F600\\U0001F600 2", "'x' \\"y\\" 1.5 2", "a  /*c*/  b 'q''r'", "1 /** d **/ 2 /***/ 3", "a /* x **/ b */ c", "'' + \\"\\" 1", "a{{\\U00010000a}} b", "x \\"}}\\" y", "{{ \\"}}\\" x }} y {{ '}}}' }}",
		"{{\\U0001F600! a b }}x", "{{ \\uffff ! a 'b }}x", "{{ '!' a b }}x", "{{! it's }} {{ ! \\U0001F600 \\"q }}y", "1e5 2E-3 3e 4.5e+6x")
	for name, mk := range mks {
		quoteState := mk().QuoteState()
		for _, in := range inputs {
			raw, err := vrun(mk, 0, in)
			if err != nil { t.Fatalf("%%s tokenizer, no options, input %%q: %%v", name, in, err) }
			for opts := 1; opts < 128; opts++ {
				got, err := vrun(mk, opts, in)
				if err != nil { t.Fatalf("%%s tokenizer, options %%07b, input %%q: %%v", name, opts, in, err) }
				// reference: drop / rewrite whole raw tokens
				var want []vtok
				last := tokenizers.Unknown
				for _, r := range raw {
					if r.typ == tokenizers.Unknown && opts&1 != 0 { continue }
					if r.typ == tokenizers.Comment && opts&4 != 0 { continue }
					if r.typ == tokenizers.Whitespace && last == tokenizers.Whitespace && opts&2 != 0 { continue }
					if r.typ == tokenizers.Eof && opts&8 != 0 { continue }
					w := r
					if opts&64 != 0 && (r.typ == tokenizers.Quoted || (name == "expression" && r.typ == tokenizers.Word && len(r.val) > 0 && r.val[0] == '"')) {
						w.val = quoteState.DecodeString(r.val, []rune(r.val)[0])
					}
					if r.typ == tokenizers.Whitespace && opts&16 != 0 { w.val = " " }
					if opts&32 != 0 && (r.typ == tokenizers.Integer || r.typ == tokenizers.Float || r.typ == tokenizers.HexDecimal) { w.typ = tokenizers.Number }
					want = append(want, w)
					last = w.typ
				}
				if len(got) != len(want) { t.Fatalf("%%s tokenizer, options %%07b (bit0 skipUnknown, 1 skipWhitespaces, 2 skipComments, 3 skipEof, 4 merge, 5 unify, 6 decode), input %%q:\\n got  %%v\\n want %%v", name, opts, in, got, want) }
				for i := range got {
					if got[i] != want[i] { t.Fatalf("%%s tokenizer, options %%07b, input %%q: token %%d is %%v, the option-free stream gives %%v", name, opts, in, i, got[i], want[i]) }
				}
			}
		}
	}
}
'''


@family(r'/tokenizers\.AbstractTokenizer\)\.')
class OptionsFamily(TokenizerFamily):  # generic, expression, csv and mustache tokenizers
    def test_source(self, vals):
        n = vals.get('n', 0)
        extra = ''
        if isinstance(n, int) and 0 < n <= self.MAXN:
            extra = 'inputs = append(inputs, string(%s))' % go_runes(vals, 'r', n)
        return 'csv', OPTIONS_TEST % {'extra': extra, 'maxlen': 3}

    def inputs(self):
        d = {'n': 'len(sc(c.Scanner).content)'}
        for i in range(self.MAXN):
            d['r%d' % i] = 'sc(c.Scanner).content[%d]' % i
        return d

    def bounds(self):
        return ['len(sc(c.Scanner).content) <= %d' % self.MAXN]

    @classmethod
    def bounded_source(cls, prog, fname):
        return 'csv', OPTIONS_TEST % {'extra': '', 'maxlen': 3}, 'all 128 option sets x every input up to length 3 over an 11-character alphabet (plus 5 longer inputs) x generic and expression tokenizers'


COLLECTION_TEST = '''package calculator_test

import (
	"strings"
	"testing"

	"github.com/pip-services3-gox/pip-services3-expressions-gox/calculator/functions"
	"github.com/pip-services3-gox/pip-services3-expressions-gox/calculator/variables"
	"github.com/pip-services3-gox/pip-services3-expressions-gox/variants"
)

// C18 (bounded): every sequence of up to 4 operations (Add of names from {"a","A","b","Bc"}, Locate, Remove(i),
// RemoveByName, Clear, ClearValues) on a variable collection and a function collection, compared with a plain
// ordered-list model with case-insensitive first-match lookup.
func TestVerifReplay(t *testing.T) {
	names := []string{"a", "A", "b", "Bc"}
	type op struct{ kind int; arg int }
	var ops []op
	for i := range names { ops = append(ops, op{0, i}, op{1, i}, op{3, i}) }
	for i := 0; i < 3; i++ { ops = append(ops, op{2, i}) }
	ops = append(ops, op{4, 0}, op{5, 0})
	var seqs [][]op
	var gen func(cur []op, d int)
	gen = func(cur []op, d int) { seqs = append(seqs, append([]op{}, cur...)); if d == 0 { return }; for _, o := range ops { gen(append(cur, o), d-1) } }
	gen(nil, 4)
	find := func(model []string, n string) int { for i, m := range model { if strings.EqualFold(m, n) { return i } }; return -1 }
	for _, sq := range seqs {
		vc := variables.NewVariableCollection()
		fc := functions.NewFunctionCollection()
		var vm, fm []string
		for _, o := range sq {
			switch o.kind {
			case 0:
				vc.Add(variables.NewVariable(names[o.arg], variants.VariantFromInteger(len(vm)))); vm = append(vm, names[o.arg])
				fc.Add(functions.NewDelegatedFunction(names[o.arg], func(p []*variants.Variant, o variants.IVariantOperations) (*variants.Variant, error) { return variants.EmptyVariant(), nil })); fm = append(fm, names[o.arg])
			case 1:
				v := vc.Locate(names[o.arg])
				if i := find(vm, names[o.arg]); i < 0 { vm = append(vm, names[o.arg]); if !v.Value().IsNull() { t.Fatalf("located new variable is not empty") } } else if v != vc.Get(i) { t.Fatalf("Locate(%q) did not return the first match", names[o.arg]) }
			case 2:
				if o.arg < len(vm) { vc.Remove(o.arg); vm = append(append([]string{}, vm[:o.arg]...), vm[o.arg+1:]...) }
				if o.arg < len(fm) { fc.Remove(o.arg); fm = append(append([]string{}, fm[:o.arg]...), fm[o.arg+1:]...) }
			case 3:
				vc.RemoveByName(names[o.arg]); if i := find(vm, names[o.arg]); i >= 0 { vm = append(append([]string{}, vm[:i]...), vm[i+1:]...) }
				fc.RemoveByName(names[o.arg]); if i := find(fm, names[o.arg]); i >= 0 { fm = append(append([]string{}, fm[:i]...), fm[i+1:]...) }
			case 4:
				vc.Clear(); vm = nil; fc.Clear(); fm = nil
			case 5:
				vc.ClearValues()
				for i := 0; i < vc.Length(); i++ { if !vc.Get(i).Value().IsNull() { t.Fatalf("ClearValues left a value") } }
			}
			if vc.Length() != len(vm) || fc.Length() != len(fm) { t.Fatalf("ops %v: lengths %d/%d, model %d/%d", sq, vc.Length(), fc.Length(), len(vm), len(fm)) }
			for i := range vm { if vc.Get(i).Name() != vm[i] { t.Fatalf("ops %v: variable %d is %q, model %q", sq, i, vc.Get(i).Name(), vm[i]) } }
			for i := range fm { if fc.Get(i).Name() != fm[i] { t.Fatalf("ops %v: function %d is %q, model %q", sq, i, fc.Get(i).Name(), fm[i]) } }
			for _, n := range []string{"a", "A", "B", "bC", "zz"} {
				if vc.FindIndexByName(n) != find(vm, n) { t.Fatalf("ops %v: FindIndexByName(%q) = %d, first case-insensitive match is %d", sq, n, vc.FindIndexByName(n), find(vm, n)) }
				if fc.FindIndexByName(n) != find(fm, n) { t.Fatalf("ops %v: function FindIndexByName(%q) = %d, want %d", sq, n, fc.FindIndexByName(n), find(fm, n)) }
				if (vc.FindByName(n) == nil) != (find(vm, n) < 0) { t.Fatalf("FindByName(%q)", n) }
			}
			all := vc.GetAll(); if len(all) != len(vm) { t.Fatalf("GetAll") }
			if len(all) > 0 { all[0] = nil; if vc.Get(0) == nil { t.Fatalf("GetAll returned the internal list") } }
		}
	}
}
'''


@family(r'/calculator/variables\.|/calculator/functions\.FunctionCollection|/calculator/functions\.NewFunctionCollection')
class CollectionFamily(Family):
    def test_source(self, vals):
        return 'calculator', COLLECTION_TEST

    @classmethod
    def bounded_source(cls, prog, fname):
        return 'calculator', COLLECTION_TEST, 'all sequences of <= 4 operations (Add/Locate/RemoveByName of 4 names, Remove(0..2), Clear, ClearValues) on both collections against an ordered-list model'


PARSER_TEST = r'''package calculator_test

import (
	"fmt"
	"strings"
	"testing"

	"github.com/pip-services3-gox/pip-services3-expressions-gox/calculator/parsers"
)

// C02 / C01 (bounded): every token sequence up to the stated length over the alphabets below, written with
// single blanks, against a reference recursive-descent recogniser written from the statement's precedence table:
// the parser must accept exactly the sentences of the grammar, compile them to the post-order of the syntax tree
// (operator types, constants, variable and function names, argument counts), and reject everything else with an
// error that carries a code - never a panic.
type rp struct { toks []string; pos int; out []string; ok bool }

func (p *rp) peek() string { if p.pos < len(p.toks) { return p.toks[p.pos] }; return "" }
func (p *rp) at(ts ...string) bool { for i, t := range ts { if p.pos+i >= len(p.toks) || p.toks[p.pos+i] != t { return false } }; return true }
func (p *rp) p0() bool {
	if !p.p1() { return false }
	for { t := p.peek(); if t == "AND" || t == "OR" || t == "XOR" { p.pos++; if !p.p1() { return false }; p.out = append(p.out, t) } else { return true } }
}
func (p *rp) p1() bool {
	if p.peek() == "" { return false }
	if p.peek() == "NOT" { p.pos++; if !p.p2() { return false }; p.out = append(p.out, "NOT"); return true }
	return p.p2()
}
func (p *rp) p2() bool {
	if !p.p3() { return false }
	for { t := p.peek(); if t == "=" || t == "<>" || t == "<" || t == ">=" { p.pos++; if !p.p3() { return false }; p.out = append(p.out, t) } else { return true } }
}
func (p *rp) p3() bool {
	if !p.p4() { return false }
	for {
		t := p.peek()
		switch {
		case t == "+" || t == "-" || t == "LIKE": p.pos++; if !p.p4() { return false }; p.out = append(p.out, t)
		case p.at("NOT", "LIKE"): p.pos += 2; if !p.p4() { return false }; p.out = append(p.out, "NOTLIKE")
		case p.at("IS", "NULL"): p.pos += 2; p.out = append(p.out, "ISNULL")
		case p.at("IS", "NOT", "NULL"): p.pos += 3; p.out = append(p.out, "ISNOTNULL")
		case p.at("NOT", "IN"): p.pos += 2; if !p.p4() { return false }; p.out = append(p.out, "NOTIN")
		default: return true
		}
	}
}
func (p *rp) p4() bool {
	if !p.p5() { return false }
	for { t := p.peek(); if t == "*" || t == "/" { p.pos++; if !p.p5() { return false }; p.out = append(p.out, t) } else { return true } }
}
func (p *rp) p5() bool {
	if !p.p6() { return false }
	for { t := p.peek(); if t == "^" || t == "IN" || t == "<<" { p.pos++; if !p.p6() { return false }; p.out = append(p.out, t) } else { return true } }
}
func (p *rp) p6() bool {
	unary := false
	if p.peek() == "+" { p.pos++ } else if p.peek() == "-" { unary = true; p.pos++ }
	t := p.peek()
	switch {
	case t == "1" || t == "'s'": p.pos++; p.out = append(p.out, "C:"+t)
	// (a double-quoted identifier is a variable whatever it spells: "is", "not", "null" name variables, they are not keywords)
	case strings.HasPrefix(t, "\"") && len(t) > 2: p.pos++; p.out = append(p.out, "V:"+strings.Trim(t, "\""))
	case (t == "a" || t == "f") && !(p.pos+1 < len(p.toks) && p.toks[p.pos+1] == "("): p.pos++; p.out = append(p.out, "V:"+t)
	case t == "(": p.pos++; if !p.p0() { return false }; if p.peek() != ")" { return false }; p.pos++
	case t == "a" || t == "f":
		p.pos += 2
		n := 0
		if p.peek() != ")" {
			for { if !p.p0() { return false }; n++; if p.peek() == "," { p.pos++; continue }; break }
		}
		if p.peek() != ")" { return false }
		p.pos++
		p.out = append(p.out, fmt.Sprintf("C:%%d", n), "F:"+t)
	default: return false
	}
	if unary { p.out = append(p.out, "UNARY") }
	if p.peek() == "[" { p.pos++; if !p.p0() { return false }; if p.peek() != "]" { return false }; p.pos++; p.out = append(p.out, "ELEMENT") }
	return true
}

var typeNames = map[int]string{parsers.Plus: "+", parsers.Minus: "-", parsers.Star: "*", parsers.Slash: "/", parsers.Power: "^", parsers.Equal: "=", parsers.NotEqual: "<>",
	parsers.Less: "<", parsers.EqualMore: ">=", parsers.ShiftLeft: "<<", parsers.And: "AND", parsers.Or: "OR", parsers.Xor: "XOR", parsers.In: "IN", parsers.NotIn: "NOTIN",
	parsers.Not: "NOT", parsers.Like: "LIKE", parsers.NotLike: "NOTLIKE", parsers.IsNull: "ISNULL", parsers.IsNotNull: "ISNOTNULL", parsers.Unary: "UNARY", parsers.Element: "ELEMENT"}

func TestVerifReplay(t *testing.T) {
	var cases [][]string
	var gen func(abc []string, cur []string, n int)
	gen = func(abc []string, cur []string, n int) { if len(cur) > 0 { cases = append(cases, append([]string{}, cur...)) }; if n == 0 { return }; for _, c := range abc { gen(abc, append(cur, c), n-1) } }
	gen([]string{"1", "a", "f", "+", "-", "*", "^", "(", ")", "[", "]", ",", "NOT", "IS", "NULL", "IN", "AND", "=", "LIKE", "'s'"}, nil, %(l1)d)
	gen([]string{"1", "a", "-", "*", "(", ")", "[", "]", ",", "f"}, nil, %(l2)d)
	gen([]string{"1", "f", "(", ")", ","}, nil, %(l3)d)
	gen([]string{"a", "IS", "NOT", "NULL", "IN", "LIKE", "1"}, nil, %(l3)d)
	gen([]string{"a", "\"is\"", "\"not\"", "\"null\"", "IS", "NOT", "NULL", "1", "-"}, nil, 4)
	%(extra)s
	parser := parsers.NewExpressionParser()
	bad := 0
	for _, toks := range cases {
		expr := strings.Join(toks, " ")
		ref := &rp{toks: toks}
		accept := ref.p0() && ref.pos == len(toks)
		var err error
		func() {
			defer func() { if r := recover(); r != nil { t.Errorf("%%q: SetExpression panicked: %%v", expr, r); bad++ } }()
			err = parser.SetExpression(expr)
			// submitting the same text again on the same parser gets the same verdict
			if e2 := parser.SetExpression(expr); (e2 == nil) != (err == nil) { t.Errorf("%%q: first %%v, submitted again %%v", expr, err, e2); bad++; return }
			if accept && err != nil { t.Errorf("%%q is a sentence of the grammar but was rejected: %%v", expr, err); bad++; return }
			if !accept && err == nil {
				var got []string
				for _, rt := range parser.ResultTokens() { got = append(got, fmt.Sprintf("%%d", rt.Type())) }
				t.Errorf("%%q is not a sentence of the grammar but was accepted (compiled to %%v)", expr, got); bad++; return
			}
			if err != nil { if !strings.Contains(fmt.Sprintf("%%#v", err), "Code:\"") || strings.Contains(fmt.Sprintf("%%#v", err), "Code:\"\"") { t.Errorf("%%q: error without code: %%v", expr, err); bad++ }; return }
			var got []string
			for _, rt := range parser.ResultTokens() {
				switch rt.Type() {
				case parsers.Constant: got = append(got, "C:"+strings.Trim(rt.Value().String(), "\""))
				case parsers.Variable: got = append(got, "V:"+rt.Value().AsString())
				case parsers.Function: got = append(got, "F:"+rt.Value().AsString())
				default: got = append(got, typeNames[rt.Type()])
				}
			}
			want := strings.ReplaceAll(strings.Join(ref.out, " "), "C:'s'", "C:s")
			if strings.Join(got, " ") != want { t.Errorf("%%q compiled to [%%s], the post-order of its syntax tree is [%%s]", expr, strings.Join(got, " "), want); bad++ }
		}()
		if bad > 8 { t.Fatalf("stopping after %%d failures", bad) }
	}
	// "no input is silently reinterpreted ... by ... substituting ... tokens": a numeric literal that does not fit its type is
	// rejected, the largest that fits is accepted
	for lit, ok := range map[string]bool{"9223372036854775807": true, "9223372036854775808": false, "99999999999999999999 + 1": false, "1e999": false, "2 * 1e40": false, "3.5e38": false, "3.4e38": true, "1e-60": true} {
		err := parser.SetExpression(lit)
		if ok && err != nil { t.Errorf("%%q was rejected: %%v", lit, err) }
		if !ok && err == nil { t.Errorf("%%q is out of range but was accepted (compiled to %%v)", lit, parser.ResultTokens()[0].Value()) }
	}
}
'''


@family(r'/calculator/parsers\.')
class ParserFamily(Family):
    thorough = {'l1': 4, 'l2': 6, 'l3': 7}
    @classmethod
    def source(cls, l1=3, l2=5, l3=6, extra=''):
        return PARSER_TEST % {'l1': l1, 'l2': l2, 'l3': l3, 'extra': extra}

    def test_source(self, vals):
        return 'calculator', self.source()

    @classmethod
    def bounded_source(cls, prog, fname):
        return 'calculator', cls.source(), ('all token sequences up to length 3 over a 20-token alphabet, up to length 5 over {1,a,-,*,(,),[,],",",f}, '
                                            'up to length 6 over {1,f,(,),","} and over {a,IS,NOT,NULL,IN,LIKE,1}, against a reference recogniser')


EVAL_TEST = r'''package calculator_test

import (
	"fmt"
	"strings"
	"sync"
	"testing"

	"github.com/pip-services3-gox/pip-services3-expressions-gox/calculator"
	"github.com/pip-services3-gox/pip-services3-expressions-gox/calculator/parsers"
	"github.com/pip-services3-gox/pip-services3-expressions-gox/calculator/variables"
	"github.com/pip-services3-gox/pip-services3-expressions-gox/variants"
)

// C03 / C19 / A6 (bounded): every token sequence up to the stated length over the alphabets below. For each
// accepted expression: (A6) the compiled program is a well-formed reverse-polish program - the rpnDepth of the
// contracts, computed here over the real ResultTokens, never goes negative and every token carries a value;
// (C03) evaluating it under each variable assignment and each operations manager returns exactly one of a result
// or an error and never panics; (C19) evaluating again returns an equal answer, and the compiled program and the
// variable values are the same objects with the same contents before and after; concurrent evaluations of one
// compiled expression with separate variable collections return the sequential answers.
func isBin(t int) bool {
	switch t {
	case parsers.And, parsers.Or, parsers.Xor, parsers.Plus, parsers.Minus, parsers.Star, parsers.Slash, parsers.Procent, parsers.Power,
		parsers.ShiftLeft, parsers.ShiftRight, parsers.Equal, parsers.NotEqual, parsers.More, parsers.Less, parsers.EqualMore, parsers.EqualLess,
		parsers.In, parsers.NotIn, parsers.Element:
		return true
	}
	return false
}
func isUn(t int) bool { return t == parsers.Not || t == parsers.Unary || t == parsers.IsNull || t == parsers.IsNotNull }

func rpnDepth(s []*parsers.ExpressionToken, n int) int {
	if n <= 0 { return 0 }
	d := rpnDepth(s, n-1)
	if d < 0 { return -1 }
	t := s[n-1].Type()
	switch {
	case t == parsers.Constant || t == parsers.Variable: return d + 1
	case t == parsers.Function:
		if n >= 2 && s[n-2].Type() == parsers.Constant && s[n-2].Value().Type() == variants.Integer && 0 <= s[n-2].Value().AsInteger() && s[n-2].Value().AsInteger() < d {
			return d - s[n-2].Value().AsInteger()
		}
		return -1
	case isBin(t): if d >= 2 { return d - 1 }; return -1
	case isUn(t): if d >= 1 { return d }; return -1
	}
	return d
}

type snap struct { tok *parsers.ExpressionToken; typ int; val *variants.Variant; str string }

func snapshot(c *calculator.ExpressionCalculator) []snap {
	var out []snap
	for _, t := range c.ResultTokens() { out = append(out, snap{t, t.Type(), t.Value(), t.Value().String()}) }
	return out
}
func sameSnap(a, b []snap) bool {
	if len(a) != len(b) { return false }
	for i := range a { if a[i] != b[i] { return false } }
	return true
}

func varSets() []func() *variables.VariableCollection {
	mk := func(a, b *variants.Variant) func() *variables.VariableCollection {
		return func() *variables.VariableCollection {
			vc := variables.NewVariableCollection()
			vc.Add(variables.NewVariable("a", a.Clone()))
			vc.Add(variables.NewVariable("b", b.Clone()))
			return vc
		}
	}
	arr := variants.VariantFromArray([]*variants.Variant{variants.VariantFromInteger(1), variants.VariantFromString("x")})
	// "null" said the Go way - no variant at all - and an array grown by an indexed write past its end
	gaps := func() *variables.VariableCollection {
		vc := variables.NewVariableCollection()
		a := variables.NewVariable("a", variants.VariantFromInteger(1))
		a.SetValue(nil)
		vc.Add(a)
		g := variants.VariantFromArray(nil)
		g.SetByIndex(2, variants.VariantFromInteger(5))
		vc.Add(variables.NewVariable("b", g))
		return vc
	}
	return []func() *variables.VariableCollection{
		gaps,
		mk(variants.VariantFromInteger(3), arr),
		mk(variants.EmptyVariant(), variants.VariantFromDouble(2.5)),
		mk(variants.VariantFromString("s"), variants.VariantFromBoolean(true)),
		mk(variants.VariantFromLong(-9223372036854775808), variants.VariantFromInteger(0)),
	}
}

func evalOnce(t *testing.T, expr string, c *calculator.ExpressionCalculator, vars *variables.VariableCollection) (res string, ok bool) {
	defer func() { if r := recover(); r != nil { t.Errorf("%q: evaluation panicked: %v", expr, r); ok = false } }()
	v, err := c.EvaluateUsingVariables(vars)
	if (v != nil) == (err != nil) { t.Errorf("%q: result=%v err=%v (exactly one must be non-nil)", expr, v, err); return "", false }
	if err != nil { return "E:" + err.Error(), true }
	return "V:" + fmt.Sprintf("%d:", v.Type()) + v.String(), true
}

func TestVerifReplay(t *testing.T) {
	// "concurrent use of separate instances": before anything else has been parsed in this process (so that lazily filled
	// caches are still cold), goroutines that each own a calculator set and evaluate expressions with every multi-character
	// operator (run under -race in the thorough tier); the answers are those of a sequential run afterwards
	{
		exprs := []string{"1 <= 2", "1 >= 2", "1 <> 2", "1 != 2", "1 << 2", "8 >> 1", "1 < 2 AND 2 > 1", "NOT (1 = 1) OR 2 <= 1"}
		var wg sync.WaitGroup
		got := make([]string, 16)
		for g := range got {
			wg.Add(1)
			go func(g int) {
				defer wg.Done()
				c := calculator.NewExpressionCalculator()
				for _, e := range exprs {
					if err := c.SetExpression(e); err != nil { got[g] += "error: " + err.Error(); continue }
					r, err := c.Evaluate()
					got[g] += fmt.Sprint(r, err, ";")
				}
			}(g)
		}
		wg.Wait()
		want := ""
		c := calculator.NewExpressionCalculator()
		for _, e := range exprs { if err := c.SetExpression(e); err != nil { want += "error: " + err.Error(); continue }; r, err := c.Evaluate(); want += fmt.Sprint(r, err, ";") }
		for g := range got { if got[g] != want { t.Errorf("separate calculators used concurrently: goroutine %d got %s, a sequential run %s (C19)", g, got[g], want) } }
	}
	var cases [][]string
	var gen func(abc []string, cur []string, n int)
	gen = func(abc []string, cur []string, n int) { if len(cur) > 0 { cases = append(cases, append([]string{}, cur...)) }; if n == 0 { return }; for _, c := range abc { gen(abc, append(cur, c), n-1) } }
	gen([]string{"1", "0", "2.5", "'s'", "a", "b", "+", "-", "/", "%", "^", "<<", "AND", "NOT", "=", "<", "IS", "NULL", "IN", "(", ")", "[", "]", ",", "MAX", "ARRAY", "g"}, nil, @L1@)
	gen([]string{"1", "a", "b", "-", "/", "(", ")", "[", "]", ",", "MAX"}, nil, @L2@)
	gen([]string{"\"\"", "\"a b\"", "''", "1", "+", "(", ")", "MAX", ","}, nil, 4)
	@EXTRA@
	managers := []variants.IVariantOperations{variants.NewTypeUnsafeVariantOperations(), variants.NewTypeSafeVariantOperations()}
	bad := 0
	accepted := 0
	var sample []string
	for _, toks := range cases {
		expr := strings.Join(toks, " ")
		// with automatic variables on (the default), setting the expression also creates its variables
		func() {
			defer func() { if r := recover(); r != nil { t.Errorf("%q: SetExpression with automatic variables panicked: %v", expr, r); bad++ } }()
			calculator.NewExpressionCalculator().SetExpression(expr)
		}()
		c := calculator.NewExpressionCalculator()
		c.SetAutoVariables(false)
		var err error
		func() {
			defer func() { if r := recover(); r != nil { t.Errorf("%q: SetExpression panicked: %v", expr, r); bad++; err = fmt.Errorf("panic") } }()
			err = c.SetExpression(expr)
		}()
		// the one-step constructor reports the same verdict as SetExpression
		if c2, e2 := calculator.ExpressionCalculatorFromExpression(expr); c2 == nil || (e2 == nil) != (err == nil) { t.Errorf("%q: ExpressionCalculatorFromExpression gives (%v, %v), SetExpression %v", expr, c2 != nil, e2, err); bad++ }
		if err != nil { continue }
		accepted++
		if accepted % 97 == 0 && len(sample) < 40 { sample = append(sample, expr) }
		prog := c.ResultTokens()
		for n := 0; n <= len(prog); n++ {
			if rpnDepth(prog, n) < 0 { t.Errorf("%q: the compiled program lacks operands at token %d (A6)", expr, n-1); bad++; break }
		}
		for i, tk := range prog {
			if tk == nil || tk.Value() == nil { t.Errorf("%q: token %d has no value (A6)", expr, i); bad++; continue }
			if (tk.Type() == parsers.Variable || tk.Type() == parsers.Function) && tk.Value().Type() != variants.String { t.Errorf("%q: name token %d is not a string (A6)", expr, i); bad++ }
		}
		if len(prog) > 0 && rpnDepth(prog, len(prog)) != 1 { t.Errorf("%q: the compiled program leaves %d values (A6)", expr, rpnDepth(prog, len(prog))); bad++ }
		before := snapshot(c)
		first := map[string]string{}
		for mi, ops := range managers {
			c.SetVariantOperations(ops)
			for si, mk := range varSets() {
				vars := mk()
				var vb []string
				for _, v := range vars.GetAll() { vb = append(vb, v.Value().String()) }
				r1, ok1 := evalOnce(t, expr, c, vars)
				r2, ok2 := evalOnce(t, expr, c, vars)
				if !ok1 || !ok2 { bad++; continue }
				if r1 != r2 { t.Errorf("%q: evaluated twice with equal inputs: %s then %s (C19)", expr, r1, r2); bad++ }
				first[fmt.Sprint(mi, si)] = r1
				for i, v := range vars.GetAll() { if v.Value().String() != vb[i] { t.Errorf("%q: evaluation changed variable %s from %s to %s (C19)", expr, v.Name(), vb[i], v.Value().String()); bad++ } }
			}
		}
		// the same inputs again, after evaluations under the other variable sets and managers (some of which failed)
		for mi, ops := range managers {
			c.SetVariantOperations(ops)
			for si, mk := range varSets() {
				if r, ok := evalOnce(t, expr, c, mk()); ok && r != first[fmt.Sprint(mi, si)] {
					t.Errorf("%q: %s at first, %s after evaluations under other variable sets (C19)", expr, first[fmt.Sprint(mi, si)], r); bad++
				}
			}
		}
		if !sameSnap(before, snapshot(c)) { t.Errorf("%q: evaluation changed the compiled program (C19)", expr); bad++ }
		if bad > 8 { t.Fatalf("stopping after %d failures", bad) }
	}
	if accepted == 0 { t.Fatalf("no expression was accepted: the check is vacuous") }
	// concurrent evaluations of one compiled expression, separate variable collections (run under -race in the thorough tier)
	for _, expr := range sample {
		c := calculator.NewExpressionCalculator()
		c.SetAutoVariables(false)
		if c.SetExpression(expr) != nil { continue }
		sets := varSets()
		want := make([]string, len(sets))
		for i, mk := range sets { want[i], _ = evalOnce(t, expr, c, mk()) }
		var wg sync.WaitGroup
		got := make([]string, 4*len(sets))
		for g := 0; g < len(got); g++ {
			wg.Add(1)
			go func(g int) { defer wg.Done(); for k := 0; k < 20; k++ { got[g], _ = evalOnce(t, expr, c, sets[g%len(sets)]()) } }(g)
		}
		wg.Wait()
		for g := range got { if got[g] != want[g%len(sets)] { t.Errorf("%q: concurrent evaluation returned %s, sequential %s (C19)", expr, got[g], want[g%len(sets)]); bad++ } }
	}
}
'''


@family(r'expressions-gox/calculator\.')
class EvaluatorFamily(Family):
    thorough = {'l1': 3, 'l2': 6}
    @classmethod
    def source(cls, l1=3, l2=5, extra=''):
        return EVAL_TEST.replace('@L1@', str(l1)).replace('@L2@', str(l2)).replace('@EXTRA@', extra)

    def test_source(self, vals):
        return 'calculator', self.source()

    @classmethod
    def bounded_source(cls, prog, fname):
        return 'calculator', cls.source(), ('all token sequences up to length 3 over a 27-token alphabet and up to length 5 over {1,a,b,-,/,(,),[,],",",MAX}: '
                                            'accepted ones checked for a well-formed program (A6), evaluated twice under 4 variable assignments x 2 operation managers '
                                            '(one of result/error, no panic, equal answers, program and variables unchanged), 40 of them evaluated from 16 goroutines; 16 goroutines with a calculator each set and evaluate 8 expressions with every multi-character operator on cold caches')


FUNCS_TEST = r'''package functions_test

import (
	"math"
	"strings"
	"testing"
	"time"

	"github.com/pip-services3-gox/pip-services3-expressions-gox/calculator/functions"
	"github.com/pip-services3-gox/pip-services3-expressions-gox/variants"
)

// C08 (bounded): all 37 registered names, each looked up in three letter cases, called with every argument list of
// length 0..3 over a pool of boundary values of every variant type (and a few longer lists), under both operation
// managers, against a reference written from the statement. The manager's own Convert is the oracle for argument
// conversion (conversions are C07's subject).
type ref func(p []*variants.Variant, ops variants.IVariantOperations) (want *variants.Variant, wantErr bool, check func(got *variants.Variant) bool)

func conv(ops variants.IVariantOperations, v *variants.Variant, t variants.VariantType) (*variants.Variant, bool) {
	var r *variants.Variant
	var err error
	ok := true
	func() { defer func() { if recover() != nil { ok = false } }(); r, err = ops.Convert(v, t) }()
	if !ok || err != nil || r == nil { return nil, false }
	return r, true
}

func dbl(name string, f func(float64) float64) ref {
	return func(p []*variants.Variant, ops variants.IVariantOperations) (*variants.Variant, bool, func(*variants.Variant) bool) {
		if len(p) != 1 { return nil, true, nil }
		v, ok := conv(ops, p[0], variants.Double)
		if !ok { return nil, true, nil }
		return variants.VariantFromDouble(f(v.AsDouble())), false, nil
	}
}

func fold(step func(ops variants.IVariantOperations, acc, v *variants.Variant) (*variants.Variant, bool)) ref {
	return func(p []*variants.Variant, ops variants.IVariantOperations) (*variants.Variant, bool, func(*variants.Variant) bool) {
		if len(p) < 2 { return nil, true, nil }
		acc := p[0]
		for _, v := range p[1:] {
			var ok bool
			acc, ok = step(ops, acc, v)
			if !ok { return nil, true, nil }
		}
		return acc, false, nil
	}
}

func pick(cmp func(ops variants.IVariantOperations, a, b *variants.Variant) (*variants.Variant, error)) func(variants.IVariantOperations, *variants.Variant, *variants.Variant) (*variants.Variant, bool) {
	return func(ops variants.IVariantOperations, acc, v *variants.Variant) (r *variants.Variant, ok bool) {
		defer func() { if recover() != nil { r, ok = nil, false } }()
		t, err := cmp(ops, acc, v)
		if err != nil || t == nil || t.Type() != variants.Boolean { return nil, false }
		if t.AsBoolean() { return v, true }
		return acc, true
	}
}

func zero(mk func() *variants.Variant) ref {
	return func(p []*variants.Variant, ops variants.IVariantOperations) (*variants.Variant, bool, func(*variants.Variant) bool) {
		if len(p) != 0 { return nil, true, nil }
		return mk(), false, nil
	}
}

func longs(ops variants.IVariantOperations, p []*variants.Variant, t variants.VariantType) ([]int64, bool) {
	var out []int64
	for _, v := range p {
		c, ok := conv(ops, v, t)
		if !ok { return nil, false }
		if t == variants.Long { out = append(out, c.AsLong()) } else { out = append(out, int64(c.AsInteger())) }
	}
	return out, true
}

var refs = map[string]ref{
	"Ticks": func(p []*variants.Variant, ops variants.IVariantOperations) (*variants.Variant, bool, func(*variants.Variant) bool) {
		if len(p) != 0 { return nil, true, nil }
		lo := time.Now().Unix()
		return nil, false, func(g *variants.Variant) bool { return g.Type() == variants.Long && lo <= g.AsLong() && g.AsLong() <= time.Now().Unix() }
	},
	"Now": func(p []*variants.Variant, ops variants.IVariantOperations) (*variants.Variant, bool, func(*variants.Variant) bool) {
		if len(p) != 0 { return nil, true, nil }
		lo := time.Now()
		return nil, false, func(g *variants.Variant) bool { return g.Type() == variants.DateTime && !g.AsDateTime().Before(lo) && !g.AsDateTime().After(time.Now()) }
	},
	"TimeSpan": func(p []*variants.Variant, ops variants.IVariantOperations) (*variants.Variant, bool, func(*variants.Variant) bool) {
		n := len(p)
		if n != 1 && n != 3 && n != 4 && n != 5 { return nil, true, nil }
		l, ok := longs(ops, p, variants.Long)
		if !ok { return nil, true, nil }
		if n == 1 { return variants.VariantFromTimeSpan(time.Millisecond * time.Duration(l[0])), false, nil }
		for len(l) < 5 { l = append(l, 0) }
		return variants.VariantFromTimeSpan(time.Millisecond * time.Duration((((l[0]*24+l[1])*60+l[2])*60+l[3])*1000+l[4])), false, nil
	},
	"Date": func(p []*variants.Variant, ops variants.IVariantOperations) (*variants.Variant, bool, func(*variants.Variant) bool) {
		n := len(p)
		if n < 1 || n > 7 { return nil, true, nil }
		if n == 1 {
			l, ok := longs(ops, p, variants.Long)
			if !ok { return nil, true, nil }
			return variants.VariantFromDateTime(time.Unix(l[0], 0)), false, nil
		}
		l, ok := longs(ops, p, variants.Integer)
		if !ok { return nil, true, nil }
		d := []int64{0, 1, 1, 0, 0, 0, 0}
		copy(d, l)
		return variants.VariantFromDateTime(time.Date(int(d[0]), time.Month(d[1]), int(d[2]), int(d[3]), int(d[4]), int(d[5]), int(d[6]), time.Local)), false, nil
	},
	"DayOfWeek": func(p []*variants.Variant, ops variants.IVariantOperations) (*variants.Variant, bool, func(*variants.Variant) bool) {
		if len(p) != 1 { return nil, true, nil }
		v, ok := conv(ops, p[0], variants.DateTime)
		if !ok { return nil, true, nil }
		return variants.VariantFromInteger(int(v.AsDateTime().Weekday())), false, nil
	},
	"Min": fold(pick(func(ops variants.IVariantOperations, a, b *variants.Variant) (*variants.Variant, error) { return ops.More(a, b) })),
	"Max": fold(pick(func(ops variants.IVariantOperations, a, b *variants.Variant) (*variants.Variant, error) { return ops.Less(a, b) })),
	"Sum": fold(func(ops variants.IVariantOperations, acc, v *variants.Variant) (r *variants.Variant, ok bool) {
		defer func() { if recover() != nil { r, ok = nil, false } }()
		s, err := ops.Add(acc, v)
		return s, err == nil && s != nil
	}),
	"If": func(p []*variants.Variant, ops variants.IVariantOperations) (*variants.Variant, bool, func(*variants.Variant) bool) {
		if len(p) != 3 { return nil, true, nil }
		c, ok := conv(ops, p[0], variants.Boolean)
		if !ok { return nil, true, nil }
		if c.AsBoolean() { return p[1], false, nil }
		return p[2], false, nil
	},
	"Choose": func(p []*variants.Variant, ops variants.IVariantOperations) (*variants.Variant, bool, func(*variants.Variant) bool) {
		if len(p) < 3 { return nil, true, nil }
		c, ok := conv(ops, p[0], variants.Integer)
		if !ok { return nil, true, nil }
		i := c.AsInteger()
		if i < 1 || i >= len(p) { return nil, true, nil }
		return p[i], false, nil
	},
	"E":  zero(func() *variants.Variant { return variants.VariantFromFloat(math.E) }),
	"Pi": zero(func() *variants.Variant { return variants.VariantFromFloat(math.Pi) }),
	"Rnd": func(p []*variants.Variant, ops variants.IVariantOperations) (*variants.Variant, bool, func(*variants.Variant) bool) {
		if len(p) != 0 { return nil, true, nil }
		return nil, false, func(g *variants.Variant) bool { return g.Type() == variants.Float && 0 <= g.AsFloat() && g.AsFloat() < 1 }
	},
	"Abs": func(p []*variants.Variant, ops variants.IVariantOperations) (*variants.Variant, bool, func(*variants.Variant) bool) {
		if len(p) != 1 { return nil, true, nil }
		switch p[0].Type() {
		case variants.Integer: x := p[0].AsInteger(); if x < 0 { x = -x }; return variants.VariantFromInteger(x), false, nil
		case variants.Long: x := p[0].AsLong(); if x < 0 { x = -x }; return variants.VariantFromLong(x), false, nil
		case variants.Float: return variants.VariantFromFloat(float32(math.Abs(float64(p[0].AsFloat())))), false, nil
		}
		v, ok := conv(ops, p[0], variants.Double)
		if !ok { return nil, true, nil }
		return variants.VariantFromDouble(math.Abs(v.AsDouble())), false, nil
	},
	"Acos": dbl("Acos", math.Acos), "Asin": dbl("Asin", math.Asin), "Atan": dbl("Atan", math.Atan), "Exp": dbl("Exp", math.Exp),
	"Log": dbl("Log", math.Log), "Ln": dbl("Ln", math.Log), "Log10": dbl("Log10", math.Log10),
	"Ceil": dbl("Ceil", math.Ceil), "Ceiling": dbl("Ceiling", math.Ceil), "Floor": dbl("Floor", math.Floor), "Round": dbl("Round", math.Round),
	"Cos": dbl("Cos", math.Cos), "Sin": dbl("Sin", math.Sin), "Tan": dbl("Tan", math.Tan), "Sqr": dbl("Sqr", math.Sqrt), "Sqrt": dbl("Sqrt", math.Sqrt),
	"Trunc": func(p []*variants.Variant, ops variants.IVariantOperations) (*variants.Variant, bool, func(*variants.Variant) bool) {
		if len(p) != 1 { return nil, true, nil }
		v, ok := conv(ops, p[0], variants.Double)
		if !ok { return nil, true, nil }
		// "never a silently substituted value": no integer part for a value that is not a number or beyond the range of a long
		if x := math.Trunc(v.AsDouble()); math.IsNaN(x) || x < -9223372036854775808.0 || x >= 9223372036854775808.0 { return nil, true, nil }
		return variants.VariantFromLong(int64(math.Trunc(v.AsDouble()))), false, nil
	},
	"Empty": func(p []*variants.Variant, ops variants.IVariantOperations) (*variants.Variant, bool, func(*variants.Variant) bool) {
		if len(p) != 1 { return nil, true, nil }
		return variants.VariantFromBoolean(p[0].IsEmpty()), false, nil
	},
	"Null": zero(func() *variants.Variant { return variants.EmptyVariant() }),
	"Contains": func(p []*variants.Variant, ops variants.IVariantOperations) (*variants.Variant, bool, func(*variants.Variant) bool) {
		if len(p) != 2 { return nil, true, nil }
		a, ok1 := conv(ops, p[0], variants.String)
		b, ok2 := conv(ops, p[1], variants.String)
		if !ok1 || !ok2 { return nil, true, nil }
		if a.IsEmpty() || a.IsNull() { return variants.VariantFromBoolean(false), false, nil }
		return variants.VariantFromBoolean(strings.Contains(a.AsString(), b.AsString())), false, nil
	},
	"Array": func(p []*variants.Variant, ops variants.IVariantOperations) (*variants.Variant, bool, func(*variants.Variant) bool) {
		return variants.VariantFromArray(p), false, nil
	},
}

func same(a, b *variants.Variant) bool {
	if a.Type() != b.Type() { return false }
	if a.Type() == variants.Double && math.IsNaN(a.AsDouble()) { return math.IsNaN(b.AsDouble()) }
	if a.Type() == variants.Float && a.AsFloat() != a.AsFloat() { return b.AsFloat() != b.AsFloat() }
	if a.Type() == variants.Array {
		x, y := a.AsArray(), b.AsArray()
		if len(x) != len(y) { return false }
		for i := range x { if !same(x[i], y[i]) { return false } }
		return true
	}
	if a.Type() == variants.DateTime { return a.AsDateTime().Equal(b.AsDateTime()) }
	return a.String() == b.String()
}

func TestVerifReplay(t *testing.T) {
	refs["Random"], refs["Truncate"] = refs["Rnd"], refs["Trunc"]
	pool := []*variants.Variant{
		variants.VariantFromInteger(0), variants.VariantFromInteger(2), variants.VariantFromInteger(-3), variants.VariantFromInteger(9007199254740993),
		variants.VariantFromLong(-9007199254740993), variants.VariantFromLong(1), variants.VariantFromFloat(-2.5), variants.VariantFromDouble(0.5),
		variants.VariantFromDouble(-7.5), variants.VariantFromString(""), variants.VariantFromString("abc"), variants.VariantFromString("2"),
		variants.VariantFromBoolean(true), variants.EmptyVariant(), variants.VariantFromDateTime(time.Unix(86400*3, 0)),
		variants.VariantFromTimeSpan(1500 * time.Millisecond), variants.VariantFromArray([]*variants.Variant{variants.VariantFromInteger(1), variants.VariantFromString("b")}),
	}
	var lists [][]*variants.Variant
	var gen func(cur []*variants.Variant, n int)
	gen = func(cur []*variants.Variant, n int) { lists = append(lists, append([]*variants.Variant{}, cur...)); if n == 0 { return }; for _, v := range pool { gen(append(cur, v), n-1) } }
	gen(nil, @DEPTH@)
	// arguments no integer or real function value exists for: not a number, the infinities, doubles far beyond the range of a long
	for _, x := range []float64{math.NaN(), math.Inf(1), math.Inf(-1), 1e300, -1e300, 9223372036854775808.0, -9223372036854775808.0} {
		lists = append(lists, []*variants.Variant{variants.VariantFromDouble(x)})
	}
	for n := 4; n <= 8; n++ {
		for _, v := range []*variants.Variant{pool[1], pool[7], pool[11]} {
			l := make([]*variants.Variant, n)
			for i := range l { l[i] = v }
			lists = append(lists, l)
			l2 := append([]*variants.Variant{}, l...)
			l2[0] = variants.VariantFromInteger(n - 1)
			lists = append(lists, l2)
		}
	}
	if len(refs) != 37 { t.Fatalf("reference covers %d names, 37 are registered", len(refs)) }
	coll := functions.NewDefaultFunctionCollection()
	if coll.Length() != 37 { t.Fatalf("%d functions registered, the statement names 37", coll.Length()) }
	managers := []variants.IVariantOperations{variants.NewTypeUnsafeVariantOperations(), variants.NewTypeSafeVariantOperations()}
	bad := 0
	for name, rf := range refs {
		for ci, spelled := range []string{name, strings.ToUpper(name), strings.ToLower(name)} {
			f := coll.FindByName(spelled)
			if f == nil { t.Errorf("%s is not found as %q", name, spelled); bad++; continue }
			if ci > 0 && name != "Array" && name != "Sum" { continue }
			for mi, ops := range managers {
				for _, args := range lists {
					if len(args) > 1 && (name == "Ticks" || name == "Now" || name == "Rnd" || name == "Random" || name == "E" || name == "Pi" || name == "Null") { continue }
					want, wantErr, chk := rf(args, ops)
					var got *variants.Variant
					var err error
					func() {
						defer func() { if r := recover(); r != nil { t.Errorf("%s%v (manager %d) panicked: %v", name, args, mi, r); bad++ } }()
						got, err = f.Calculate(args, ops)
					}()
					switch {
					case (got != nil) == (err != nil): t.Errorf("%s%v (manager %d): result=%v err=%v (exactly one must be non-nil)", name, args, mi, got, err); bad++
					case wantErr && err == nil: t.Errorf("%s%v (manager %d) = %v, an error is expected", name, args, mi, got); bad++
					case !wantErr && err != nil: t.Errorf("%s%v (manager %d) failed: %v; expected %v", name, args, mi, err, want); bad++
					case !wantErr && chk != nil && !chk(got): t.Errorf("%s%v (manager %d) = %v is outside its defined range", name, args, mi, got); bad++
					case !wantErr && chk == nil && !same(got, want): t.Errorf("%s%v (manager %d) = %v (type %d), expected %v (type %d)", name, args, mi, got, got.Type(), want, want.Type()); bad++
					}
					if bad > 10 { t.Fatalf("stopping after %d failures", bad) }
				}
			}
		}
	}
}
'''


@family(r'calculator/functions\.(\w+FunctionCalculator|NewDefaultFunctionCollection|\(\*DelegatedFunction\)|checkParamCount|getParameter)')
class FunctionFamily(Family):
    thorough = {'depth': 4}
    @classmethod
    def source(cls, depth=3):
        return FUNCS_TEST.replace('@DEPTH@', str(depth))

    def test_source(self, vals):
        return 'calculator/functions', self.source()

    @classmethod
    def bounded_source(cls, prog, fname):
        return 'calculator/functions', cls.source(), ('all 37 registered names (three letter cases) x all argument lists of length 0..3 over 17 boundary values of every '
                                                      'variant type plus lists of length 4..8, under both operation managers, against a reference written from the statement')


DISCOVERY_TEST = r'''package calculator_test

import (
	"strings"
	"testing"

	"github.com/pip-services3-gox/pip-services3-expressions-gox/calculator"
	"github.com/pip-services3-gox/pip-services3-expressions-gox/calculator/variables"
	"github.com/pip-services3-gox/pip-services3-expressions-gox/mustache"
	mparsers "github.com/pip-services3-gox/pip-services3-expressions-gox/mustache/parsers"
	"github.com/pip-services3-gox/pip-services3-expressions-gox/variants"
)

// C18 (bounded): variable discovery. Every token sequence up to the stated length over an alphabet with identifiers
// in different letter cases, a call, a string constant and keywords: when the expression is accepted, the reported
// names are exactly the identifiers not followed by "(" - each once, in order of first occurrence (names differing
// only in letter case may be merged) - and, with automatic variables on, the default collection has exactly one entry
// per name compared case-insensitively while the entry and value that were there before are kept. With automatic
// variables off a missing variable or function is an error that names it. The same discovery law for templates.
func expected(toks []string) []string {
	var out []string
	for i, t := range toks {
		if t != "a" && t != "A" && t != "b" && t != "f" { continue }
		if i+1 < len(toks) && toks[i+1] == "(" { continue }
		out = append(out, t)
	}
	return out
}

// got must be want with duplicates removed, where a duplicate is an exact repeat and may also be a case-variant
func matches(got, want []string) bool {
	gi := 0
	var seen []string
	for _, w := range want {
		exact, fold := false, false
		for _, s := range seen { if s == w { exact = true }; if strings.EqualFold(s, w) { fold = true } }
		if exact { continue }
		if gi < len(got) && got[gi] == w { gi++; seen = append(seen, w); continue }
		if fold { seen = append(seen, w); continue }
		return false
	}
	return gi == len(got)
}

func TestVerifReplay(t *testing.T) {
	var cases [][]string
	var gen func(abc []string, cur []string, n int)
	gen = func(abc []string, cur []string, n int) { if len(cur) > 0 { cases = append(cases, append([]string{}, cur...)) }; if n == 0 { return }; for _, c := range abc { gen(abc, append(cur, c), n-1) } }
	gen([]string{"a", "A", "b", "f", "(", ")", "+", ",", "'a'", "NOT", "1"}, nil, @L1@)
	bad, accepted := 0, 0
	// one calculator that sees every expression in turn: what it reports must not depend on what it parsed before
	shared := calculator.NewExpressionCalculator()
	shared.SetAutoVariables(false)
	for _, toks := range cases {
		expr := strings.Join(toks, " ")
		c := calculator.NewExpressionCalculator()
		c.DefaultVariables().Add(variables.NewVariable("B", variants.VariantFromInteger(7)))
		if c.SetExpression(expr) != nil { continue }
		accepted++
		want := expected(toks)
		var got []string
		seenVar := map[string]bool{}
		for _, rt := range c.ResultTokens() {
			if rt.Type() == 35 && !seenVar[rt.Value().AsString()] { seenVar[rt.Value().AsString()] = true }
		}
		// reported names: the parser's list, observed through the variables created for a fresh collection
		c2 := calculator.NewExpressionCalculator()
		c2.SetAutoVariables(false)
		c2.SetExpression(expr)
		fresh := variables.NewVariableCollection()
		c2.CreateVariables(fresh)
		for _, v := range fresh.GetAll() { got = append(got, v.Name()) }
		if shared.SetExpression(expr) == nil {
			again := variables.NewVariableCollection()
			shared.CreateVariables(again)
			var got2 []string
			for _, v := range again.GetAll() { got2 = append(got2, v.Name()) }
			if strings.Join(got2, ",") != strings.Join(got, ",") { t.Errorf("%q: a reused calculator reports %v, a fresh one %v", expr, got2, got); bad++ }
		} else { t.Errorf("%q: accepted by a fresh calculator, rejected by a reused one", expr); bad++ }
		var wantFold []string
		for _, w := range want { dup := false; for _, s := range wantFold { if strings.EqualFold(s, w) { dup = true } }; if !dup { wantFold = append(wantFold, w) } }
		if len(got) != len(wantFold) { t.Errorf("%q: variables created %v, identifiers in variable position %v", expr, got, want); bad++ } else {
			for i := range got { if !strings.EqualFold(got[i], wantFold[i]) { t.Errorf("%q: variables created %v, expected (order of first occurrence) %v", expr, got, wantFold); bad++; break } }
		}
		for _, w := range want { if !seenVar[w] { t.Errorf("%q: identifier %s in variable position is not compiled as a variable", expr, w); bad++ } }
		for n := range seenVar { ok := false; for _, w := range want { if w == n { ok = true } }; if !ok { t.Errorf("%q: %s is compiled as a variable but is not an identifier in variable position", expr, n); bad++ } }
		// default collection: one entry per name case-insensitively; the old entry B=7 is kept with its value
		dv := c.DefaultVariables()
		all := dv.GetAll()
		if len(all) == 0 || all[0].Name() != "B" || all[0].Value().AsInteger() != 7 { t.Errorf("%q: the entry B=7 that was there before was not kept first", expr); bad++ }
		for i := range all { for j := i + 1; j < len(all); j++ { if strings.EqualFold(all[i].Name(), all[j].Name()) { t.Errorf("%q: default variables hold %s and %s", expr, all[i].Name(), all[j].Name()); bad++ } } }
		for _, w := range want { if dv.FindByName(w) == nil { t.Errorf("%q: no default variable for %s", expr, w); bad++ } }
		if len(all) != len(wantFold)+1 && !(len(all) == len(wantFold) && func() bool { for _, w := range wantFold { if strings.EqualFold(w, "B") { return true } }; return false }()) {
			t.Errorf("%q: %d default variables for names %v (+B)", expr, len(all), wantFold); bad++
		}
		// missing names are errors that name them
		if len(want) > 0 {
			_, err := c2.EvaluateUsingVariables(variables.NewVariableCollection())
			if err == nil { t.Errorf("%q: evaluated without its variables", expr); bad++ }
		}
		if bad > 8 { t.Fatalf("stopping after %d failures", bad) }
	}
	if accepted == 0 { t.Fatalf("vacuous: nothing accepted") }
	c := calculator.NewExpressionCalculator()
	c.SetAutoVariables(false)
	c.SetExpression("1 + Abc")
	if _, err := c.Evaluate(); err == nil || !strings.Contains(err.Error(), "Abc") { t.Errorf("missing variable Abc: %v", err) }
	c.SetExpression("1 + Gh(2)")
	if _, err := c.Evaluate(); err == nil || !strings.Contains(err.Error(), "Gh") { t.Errorf("missing function Gh: %v", err) }
	// templates: variables are the names in variable / section position, never the section words
	var tcases [][]string
	cases = nil
	gen([]string{"x ", "{{a}}", "{{{B}}}", "{{#a}}", "{{/a}}", "{{^c}}", "{{/c}}", "{{#if d}}", "{{/if}}", "{{#unless a}}", "{{/unless}}", "{{! if}}"}, nil, @L2@)
	tcases = cases
	names := map[string]string{"{{a}}": "a", "{{{B}}}": "B", "{{#a}}": "a", "{{^c}}": "c", "{{#if d}}": "d", "{{#unless a}}": "a"}
	for _, toks := range tcases {
		tpl := strings.Join(toks, "")
		m := mustache.NewMustacheTemplate()
		var err error
		func() { defer func() { if r := recover(); r != nil { t.Errorf("%q: SetTemplate panicked: %v", tpl, r); bad++; err = nil } }(); err = m.SetTemplate(tpl) }()
		if err != nil { continue }
		var want []string
		for _, tk := range toks { if n, ok := names[tk]; ok { dup := false; for _, w := range want { if strings.EqualFold(w, n) { dup = true } }; if !dup { want = append(want, n) } } }
		// "each reported once in order of first occurrence": the parser's own report, in order (the first spelling is kept)
		mp := mparsers.NewMustacheParser()
		if e := mp.SetTemplate(tpl); e != nil { t.Errorf("%q: the template accepts it, its parser does not: %v", tpl, e); bad++ }
		if got := mp.VariableNames(); strings.Join(got, ",") != strings.Join(want, ",") { t.Errorf("%q: reported names %v, in order of first occurrence they are %v", tpl, got, want); bad++ }
		// the names are those of the template that was set last: a blank template, a rejected one and Clear leave none behind
		if e := mp.SetTemplate(" \n"); e != nil || len(mp.VariableNames()) != 0 { t.Errorf("%q then a blank template: names %v, error %v", tpl, mp.VariableNames(), e); bad++ }
		mp.SetTemplate(tpl)
		if e := mp.SetTemplate("{{#open}}"); e == nil || len(mp.VariableNames()) != 0 { t.Errorf("%q then a rejected template: names %v, error %v", tpl, mp.VariableNames(), e); bad++ }
		mp.SetTemplate(tpl); mp.Clear()
		if len(mp.VariableNames()) != 0 { t.Errorf("%q then Clear: names %v", tpl, mp.VariableNames()); bad++ }
		dv := m.DefaultVariables()
		if len(dv) != len(want) { t.Errorf("%q: default variables %v, names in the template %v", tpl, dv, want); bad++ }
		for _, w := range want { found := false; for k := range dv { if strings.EqualFold(k, w) { found = true } }; if !found { t.Errorf("%q: no default variable for %s (%v)", tpl, w, dv); bad++ } }
		// "exactly one entry per such name compared case-insensitively, keeping entries ... already there": the same template
		// set again on the same object with every name in the other letter case adds nothing
		tpl2 := strings.NewReplacer("{{a}}", "{{A}}", "{{{B}}}", "{{{b}}}", "{{#a}}", "{{#A}}", "{{/a}}", "{{/A}}", "{{^c}}", "{{^C}}", "{{/c}}", "{{/C}}", "{{#if d}}", "{{#if D}}", "{{#unless a}}", "{{#unless A}}").Replace(tpl)
		if e := m.SetTemplate(tpl2); e != nil { t.Errorf("%q: the same template in the other letter case is rejected: %v", tpl2, e); bad++ }
		if dv2 := m.DefaultVariables(); len(dv2) != len(want) { t.Errorf("%q then %q on one template: default variables %v, one entry per name is %v", tpl, tpl2, dv2, want); bad++ }
		if bad > 8 { t.Fatalf("stopping after %d failures", bad) }
	}
}
'''


@family(r'ExpressionCalculator\)\.(CreateVariables|SetExpression|SetOriginalTokens)')
class DiscoveryFamily(Family):
    @classmethod
    def source(cls, l1=5, l2=4):
        return DISCOVERY_TEST.replace('@L1@', str(l1)).replace('@L2@', str(l2))

    def test_source(self, vals):
        return 'calculator', self.source()

    @classmethod
    def bounded_source(cls, prog, fname):
        return 'calculator', cls.source(), ('all token sequences up to length 5 over {a,A,b,f,(,),+,",",\'a\',NOT,1} and all template lexeme sequences up to length 4 over 12 lexemes: '
                                            'reported names and created variables against the identifiers in variable position')


MUSTACHE_TEST = r'''package mustache_test

import (
	"strings"
	"testing"

	"github.com/pip-services3-gox/pip-services3-expressions-gox/mustache"
)

// C03 / C10 / C19 (bounded): every sequence of up to @L@ template lexemes over the alphabet below. A reference
// recogniser and renderer written from the statement decide which templates are well-formed and what they render
// to under each variable map; SetTemplate must accept exactly the well-formed ones (an error, never a panic,
// otherwise) and EvaluateWithVariables must return the reference rendering, twice, leaving the map unchanged.
type node struct { kind byte; text string; name string; kids []*node }  // kind: t text, v variable, e escaped, c comment, s section, i inverted

type lex struct { src string; kind byte; name string }  // kind as above, plus 'x' section end (name "" = anonymous), '?' malformed

var alphabet = []lex{
	{"x ", 't', ""}, {"\"q\" ", 't', ""}, {"{{a}}", 'v', "a"}, {"{{{B}}}", 'e', "B"}, {"{{ ! note }}", 'c', ""},
	{"{{#a}}", 's', "a"}, {"{{/a}}", 'x', "a"}, {"{{^c}}", 'i', "c"}, {"{{/c}}", 'x', "c"},
	{"{{#if D}}", 's', "D"}, {"{{/if}}", 'x', ""}, {"{{#unless a}}", 'i', "a"}, {"{{/unless}}", 'x', ""},
	{"{{{#a}}}", 's', "a"}, {"{{/}}", '?', ""}, {"{{a}}}", '?', ""}, {"{{", '?', ""},
	// a comment's body is free text (apostrophes, quotes, braces that do not close it); its brace counts must match too
	{"{{! don't \"{ }x }}", 'c', ""}, {"{{{!it's}}}", 'c', ""}, {"{{ ! it's }}", 'c', ""}, {"{{! n }}}", '?', ""}, {"{{{! n }}", '?', ""},
}

func parse(ls []lex, pos *int, open string, top bool) ([]*node, bool) {
	var out []*node
	for *pos < len(ls) {
		l := ls[*pos]
		*pos++
		switch l.kind {
		case '?': return nil, false
		case 'x':
			if top { return nil, false }
			if l.name == open || l.name == "" { return out, true }
			return nil, false
		case 's', 'i':
			kids, ok := parse(ls, pos, l.name, false)
			if !ok { return nil, false }
			out = append(out, &node{kind: l.kind, name: l.name, kids: kids})
		default:
			out = append(out, &node{kind: l.kind, text: l.src, name: l.name})
		}
	}
	return out, top
}

// a name resolves ignoring letter case; the same answer on every run, whatever the map's iteration order: the key
// spelled exactly like the name if there is one, else the smallest of the keys that match
func get(m map[string]string, name string) (string, bool) {
	if v, ok := m[name]; ok { return v, true }
	best, found := "", false
	for k := range m { if strings.EqualFold(k, name) && (!found || k < best) { best, found = k, true } }
	return m[best], found
}

func esc(s string) string {
	r := strings.NewReplacer("\\", "\\\\", "\"", "\\\"", "/", "\\/", "\b", "\\b", "\f", "\\f", "\n", "\\n", "\r", "\\r", "\t", "\\t")
	return r.Replace(s)
}

func render(ns []*node, m map[string]string) string {
	var b strings.Builder
	for _, n := range ns {
		v, ok := get(m, n.name)
		switch n.kind {
		case 't': b.WriteString(n.text)
		case 'v': if ok { b.WriteString(v) }
		case 'e': if ok { b.WriteString(esc(v)) }
		case 's': if ok && v != "" { b.WriteString(render(n.kids, m)) }
		case 'i': if !(ok && v != "") { b.WriteString(render(n.kids, m)) }
		}
	}
	return b.String()
}

func TestVerifReplay(t *testing.T) {
	var cases [][]lex
	var gen func(cur []lex, n int)
	gen = func(cur []lex, n int) { if len(cur) > 0 { cases = append(cases, append([]lex{}, cur...)) }; if n == 0 { return }; for _, c := range alphabet { gen(append(cur, c), n-1) } }
	gen(nil, @L@)
	maps := []map[string]string{{}, {"a": "1", "b": "q\"/\\\n\tZoë \b\f\r√", "c": "", "d": "x"}, {"A": "vё", "B": "", "C": "z"},
		{"a": "lo", "A": "UP", "b": "", "B": "Q/", "d": "", "D": "y", "C": "z", "c": ""}}
	bad, accepted := 0, 0
	for _, ls := range cases {
		var sb strings.Builder
		for _, l := range ls { sb.WriteString(l.src) }
		tpl := sb.String()
		// the parser trims blanks at both ends of the template: so does the reference (on the last text lexeme)
		ls2 := append([]lex{}, ls...)
		if n := len(ls2); ls2[n-1].kind == 't' { ls2[n-1].src = strings.TrimRight(ls2[n-1].src, " ") }
		pos := 0
		tree, wellFormed := parse(ls2, &pos, "", true)
		m := mustache.NewMustacheTemplate()
		if len(ls) % 2 == 0 { m.SetDefaultVariables(nil) }   // "whatever the default variables were set to"
		var err error
		panicked := false
		func() { defer func() { if r := recover(); r != nil { t.Errorf("%q: SetTemplate panicked: %v", tpl, r); bad++; panicked = true } }(); err = m.SetTemplate(tpl) }()
		if panicked { continue }
		// the one-step constructor gives a template exactly when the text is accepted, an error otherwise - never both, never neither
		if m2, e2 := mustache.NewMustacheTemplateFromString(tpl); (m2 != nil) == (e2 != nil) || (e2 == nil) != (err == nil) { t.Errorf("%q: NewMustacheTemplateFromString gives (%v, %v), SetTemplate %v", tpl, m2 != nil, e2, err); bad++ }
		if wellFormed && err != nil { t.Errorf("%q is well-formed but was rejected: %v", tpl, err); bad++; continue }
		if !wellFormed && err == nil { t.Errorf("%q is malformed but was accepted", tpl); bad++; continue }
		if err != nil { continue }
		accepted++
		// the template's own default variables get values: an explicit map - also an empty one - is still what is rendered,
		// and a nil map (Evaluate) means the defaults
		defaults := m.DefaultVariables()
		for k := range defaults { defaults[k] = "D" + k }
		if got, e2 := m.Evaluate(); e2 != nil || got != render(tree, defaults) { t.Errorf("%q with its default variables rendered %q, %v; the reference renders %q", tpl, got, e2, render(tree, defaults)); bad++ }
		for mi, vars := range maps {
			before := len(vars)
			want := render(tree, vars)
			for rep := 0; rep < 3; rep++ {
				var got string
				var e2 error
				func() { defer func() { if r := recover(); r != nil { t.Errorf("%q (map %d): rendering panicked: %v", tpl, mi, r); bad++; e2 = nil; got = want } }(); got, e2 = m.EvaluateWithVariables(vars) }()
				if e2 != nil { t.Errorf("%q (map %d): rendering failed: %v", tpl, mi, e2); bad++; break }
				if got != want { t.Errorf("%q (map %d, run %d) rendered %q, the reference renders %q", tpl, mi, rep, got, want); bad++; break }
			}
			if len(vars) != before { t.Errorf("%q: rendering changed the variable map", tpl); bad++ }
		}
		if bad > 8 { t.Fatalf("stopping after %d failures", bad) }
	}
	if accepted == 0 { t.Fatalf("vacuous: no template accepted") }
}
'''


@family(r'/mustache[./]')
class MustacheFamily(Family):
    thorough = {'l': 5}
    @classmethod
    def source(cls, l=4):
        return MUSTACHE_TEST.replace('@L@', str(l))

    def test_source(self, vals):
        return 'mustache', self.source()

    @classmethod
    def bounded_source(cls, prog, fname):
        return 'mustache', cls.source(), ('all sequences of up to 4 template lexemes over a 22-lexeme alphabet (text, variables, escaped variables, comments with free text, sections in '
                                          'every spelling, section ends by name and anonymous, five malformed tags) x 4 variable maps (one with keys that differ only in letter case), each rendered three times, against a reference recogniser and renderer')


HISTORY_TEST = r'''package test_calculator

import (
	"fmt"
	"strings"
	"testing"

	"github.com/pip-services3-gox/pip-services3-expressions-gox/calculator"
	ctok "github.com/pip-services3-gox/pip-services3-expressions-gox/calculator/tokenizers"
	"github.com/pip-services3-gox/pip-services3-expressions-gox/calculator/variables"
	"github.com/pip-services3-gox/pip-services3-expressions-gox/csv"
	"github.com/pip-services3-gox/pip-services3-expressions-gox/io"
	"github.com/pip-services3-gox/pip-services3-expressions-gox/mustache"
	mtok "github.com/pip-services3-gox/pip-services3-expressions-gox/mustache/tokenizers"
	"github.com/pip-services3-gox/pip-services3-expressions-gox/tokenizers"
	"github.com/pip-services3-gox/pip-services3-expressions-gox/tokenizers/generic"
	"github.com/pip-services3-gox/pip-services3-expressions-gox/variants"
)

// C05 (bounded): every ordered pair of inputs from a pool that contains every registered multi-character symbol,
// every token class, unterminated literals and non-ASCII text, fed to ONE instance, against fresh instances; the second
// input after a complete run, after an aborted iteration, and with 0..2 HasNextToken queries before each NextToken.
func show(ts []*tokenizers.Token) string {
	var b strings.Builder
	for _, t := range ts { fmt.Fprintf(&b, "[%d %q %d:%d]", t.Type(), t.Value(), t.Line(), t.Column()) }
	return b.String()
}

func drain(tk tokenizers.ITokenizer, s string, queries int) string {
	tk.SetReader(io.NewStringScanner(s))
	var out []*tokenizers.Token
	for {
		for q := 0; q < queries; q++ { tk.HasNextToken() }
		t := tk.NextToken()
		if t == nil { break }
		out = append(out, t)
		if len(out) > 200 { break }
	}
	return show(out)
}

func TestVerifReplay(t *testing.T) {
	pool := []string{"a <= b", "a <> b", "a << b", "a >= b", ">> != <= <>", "x=1.5e3", "'unterminated", "\"q\"\"q\"", "/* c */ z", "// c\nz", "абв + 1",
		"1,\"a,b\"\r\n2,c", "{{a}} t {{#b}}u{{/b}}", "t {{{c}}}", "", "   ", "-10.11", "NOT x IS NULL", "<", "<=", "=="}
	makers := map[string]func() tokenizers.ITokenizer{
		"generic":    func() tokenizers.ITokenizer { return generic.NewGenericTokenizer() },
		"expression": func() tokenizers.ITokenizer { return ctok.NewExpressionTokenizer() },
		"csv":        func() tokenizers.ITokenizer { return csv.NewCsvTokenizer() },
		"mustache":   func() tokenizers.ITokenizer { return mtok.NewMustacheTokenizer() },
	}
	bad := 0
	for name, mk := range makers {
		for _, x := range pool {
			for _, y := range pool {
				want := show(mk().TokenizeBuffer(y))
				one := mk()
				one.TokenizeBuffer(x)
				if got := show(one.TokenizeBuffer(y)); got != want { t.Errorf("%s tokenizer: %q after %q gives %s, a fresh one %s", name, y, x, got, want); bad++ }
				two := mk()
				two.SetReader(io.NewStringScanner(x))
				two.NextToken(); two.HasNextToken()
				if got := show(two.TokenizeBuffer(y)); got != want { t.Errorf("%s tokenizer: %q after an aborted run over %q gives %s, a fresh one %s", name, y, x, got, want); bad++ }
				if bad > 8 { t.Fatalf("stopping after %d failures", bad) }
			}
			for q := 1; q <= 2; q++ {
				if a, b := drain(mk(), x, 0), drain(mk(), x, q); a != b { t.Errorf("%s tokenizer: %q read with %d has-next queries per token gives %s, without %s", name, x, q, b, a); bad++ }
			}
		}
	}
	// a scanner that is reset and set again is a new input like any other
	for name, mk := range makers {
		for _, x := range append(append([]string{}, pool...), "Hello, {{ Name", "{{! c", "a {{#b") {
			tk := mk()
			sc := io.NewStringScanner(x)
			a := show(tk.TokenizeStream(sc))
			sc.Reset()
			b := show(tk.TokenizeStream(sc))
			if a != b { t.Errorf("%s tokenizer: %q read through one scanner gives %s, after Reset() and a second TokenizeStream %s", name, x, a, b); bad++ }
			if w := show(mk().TokenizeBuffer(x)); a != w { t.Errorf("%s tokenizer: %q through TokenizeStream gives %s, through TokenizeBuffer %s", name, x, a, w); bad++ }
		}
	}
	// separate instances share nothing: reconfiguring one (a new symbol, a new word character, no word characters at all)
	// leaves an instance made before and one made afterwards as they were
	for name, mk := range makers {
		for _, probe := range []string{"a:=b #c <= d", "x~~y 1.5", "{{a:=b}} #c"} {
			want := show(mk().TokenizeBuffer(probe))
			before := mk()
			one := mk()
			if st := one.SymbolState(); st != nil { st.Add(":=", tokenizers.Symbol); st.Add("~~", tokenizers.Symbol); st.Add("<= ", tokenizers.Symbol) }
			if st := one.WordState(); st != nil { st.SetWordChars('#', '#', true); st.SetWordChars('a', 'z', false) }
			one.TokenizeBuffer(probe)
			if got := show(before.TokenizeBuffer(probe)); got != want { t.Errorf("%s tokenizer: after another instance was reconfigured %q gives %s, before %s", name, probe, got, want); bad++ }
			if got := show(mk().TokenizeBuffer(probe)); got != want { t.Errorf("%s tokenizer: a new instance made after another was reconfigured reads %q as %s, before %s", name, probe, got, want); bad++ }
		}
	}
	exprs := []string{"a + b", "A * 2", "f(a)", "a <= b", "a <> b", "a << 1", "1 +", "Max(a, 3) + B", "a + 'x'", "(", "a[0]", "NOT a"}
	evalOf := func(c *calculator.ExpressionCalculator) string {
		var toks []string
		for _, rt := range c.ResultTokens() { toks = append(toks, fmt.Sprintf("%d:%s", rt.Type(), rt.Value().String())) }
		vs := variables.NewVariableCollection()
		c.CreateVariables(vs)
		var names []string
		for _, v := range vs.GetAll() { names = append(names, v.Name()); v.SetValue(variants.VariantFromInteger(3)) }
		r, err := c.EvaluateUsingVariables(vs)
		return fmt.Sprint(toks, names, r, err)
	}
	for _, x := range exprs {
		for _, y := range exprs {
			fresh := calculator.NewExpressionCalculator()
			fresh.SetAutoVariables(false)
			e1 := fresh.SetExpression(y)
			want := fmt.Sprint(e1) + evalOf(fresh)
			one := calculator.NewExpressionCalculator()
			one.SetAutoVariables(false)
			one.SetExpression(x)
			evalOf(one)
			e2 := one.SetExpression(y)
			if got := fmt.Sprint(e2) + evalOf(one); got != want { t.Errorf("calculator: %q after %q gives %s, a fresh one %s", y, x, got, want); bad++ }
		}
	}
	tpls := []string{"a {{x}} b", "{{#x}}in{{/x}}", "{{^y}}no{{/y}} {{x}}", "{{#x}}", "t", "{{{Z}}}{{! c }}"}
	for _, x := range tpls {
		for _, y := range tpls {
			vars := map[string]string{"x": "1", "z": "<\"/>"}
			fresh := mustache.NewMustacheTemplate()
			e1 := fresh.SetTemplate(y)
			r1, e1b := fresh.EvaluateWithVariables(vars)
			one := mustache.NewMustacheTemplate()
			one.SetTemplate(x)
			one.EvaluateWithVariables(vars)
			e2 := one.SetTemplate(y)
			r2, e2b := one.EvaluateWithVariables(vars)
			if fmt.Sprint(e1, r1, e1b) != fmt.Sprint(e2, r2, e2b) { t.Errorf("template: %q after %q gives %v, a fresh one %v", y, x, fmt.Sprint(e2, r2, e2b), fmt.Sprint(e1, r1, e1b)); bad++ }
		}
	}
}
'''


@family(r'AbstractTokenizer\)\.(SetReader|HasNextToken)|ExpressionParser\)\.Clear|MustacheParser\)\.Clear')
class HistoryFamily(Family):
    @classmethod
    def source(cls):
        return HISTORY_TEST

    def test_source(self, vals):
        return 'test/calculator', self.source()

    @classmethod
    def bounded_source(cls, prog, fname):
        return 'test/calculator', cls.source(), ('all ordered pairs from a pool of 21 inputs x 4 tokenizers (after a complete run and after an aborted one; 0..2 has-next queries per token), '
                                                    '12 x 12 expressions on one calculator, 6 x 6 templates on one template instance, each against fresh instances; '
                                                    'reconfiguring one tokenizer instance (symbols, word characters) against an older and a newer instance')


LEXEME_TEST = r'''package test_calculator

import (
	"strings"
	"testing"

	ctok "github.com/pip-services3-gox/pip-services3-expressions-gox/calculator/tokenizers"
	"github.com/pip-services3-gox/pip-services3-expressions-gox/tokenizers"
	"github.com/pip-services3-gox/pip-services3-expressions-gox/tokenizers/generic"
)

// C13 (bounded): every sequence of up to @L@ lexemes from the pools below, written with one blank between neighbours
// (and, for pairs that cannot merge, also without), must be tokenized back into exactly those lexemes with exactly
// those classes, by the generic and by the expression tokenizer (the generic quote state has no escape: its strings
// run to the next quote of the same kind; doubled quotes are an expression/CSV feature).
type lx struct { s string; typ int }

func classes(ts []*tokenizers.Token) []lx {
	var out []lx
	for _, t := range ts { if t.Type() != tokenizers.Whitespace && t.Type() != tokenizers.Eof { out = append(out, lx{t.Value(), t.Type()}) } }
	return out
}

func same2(a, b []lx) bool {
	if len(a) != len(b) { return false }
	for i := range a { if a[i] != b[i] { return false } }
	return true
}

func isPunct(l lx) bool { return l.typ == tokenizers.Symbol && (l.s == "(" || l.s == ")" || l.s == "," || l.s == "[" || l.s == "]") }

func TestVerifReplay(t *testing.T) {
	W, I, F, Q, S, K, C := tokenizers.Word, tokenizers.Integer, tokenizers.Float, tokenizers.Quoted, tokenizers.Symbol, tokenizers.Keyword, tokenizers.Comment
	// (a number ends at the first character that is not an ASCII digit: Arabic-Indic, Devanagari and fullwidth digits are word characters)
	genericPool := []lx{{"\u0663x", W}, {"\uff15", W}, {"abc", W}, {"x_1", W}, {"éa", W}, {"юж", W}, {"naÿve", W}, {"ÿÀ", W}, {"12", I}, {"-7", I}, {"1.5", F}, {"-0.25", F}, {"'a b'", Q}, {"\"q'r\"", Q},
		{"<=", S}, {"<>", S}, {">=", S}, {"<", S}, {"(", S}, {")", S}, {",", S}, {"+", S}, {"=", S}}
	exprPool := []lx{{"abc", W}, {"x_1", W}, {"éa", W}, {"ÿzÀ", W}, {"/** d **/", C}, {"/* a*b **/", C}, {"/***/", C}, {"AND", K}, {"and", K}, {"Not", K}, {"nULL", K}, {"is", K}, {"IN", K}, {"like", K}, {"TRUE", K}, {"xor", K},
		{"12", I}, {"1.5", F}, {"1e3", F}, {"2.5E-2", F}, {"'it''s'", Q}, {"'a\nb ю'", Q}, {"\"q\"\"r\"", W},
		{"<=", S}, {">=", S}, {"<>", S}, {"!=", S}, {"<<", S}, {">>", S}, {"<", S}, {"-", S}, {"(", S}, {")", S}, {"[", S}, {",", S}, {"/* c */", C}}
	run := func(name string, mk func() tokenizers.ITokenizer, pool []lx, depth int) {
		var seqs [][]lx
		var gen func(cur []lx, n int)
		gen = func(cur []lx, n int) { if len(cur) > 0 { seqs = append(seqs, append([]lx{}, cur...)) }; if n == 0 { return }; for _, l := range pool { gen(append(cur, l), n-1) } }
		gen(nil, depth)
		bad := 0
		tk := mk()
		for _, sq := range seqs {
			var parts []string
			for _, l := range sq { parts = append(parts, l.s) }
			for _, sep := range []string{" ", ""} {
				if sep == "" {
					ok := len(sq) > 1
					for i := 0; i+1 < len(sq); i++ { if !isPunct(sq[i]) && !isPunct(sq[i+1]) { ok = false } }
					if !ok { continue }
				}
				text := strings.Join(parts, sep)
				got := classes(tk.TokenizeBuffer(text))
				if !same2(got, sq) { t.Errorf("%s tokenizer: %q gives %v, the lexemes are %v", name, text, got, sq); bad++ }
				if bad > 8 { t.Fatalf("stopping after %d failures", bad) }
			}
		}
	}
	run("generic", func() tokenizers.ITokenizer { return generic.NewGenericTokenizer() }, genericPool, @L@)
	run("expression", func() tokenizers.ITokenizer { return ctok.NewExpressionTokenizer() }, exprPool, @L@)
	// a number ends at the first character that is not an ASCII digit, also when a digit of another script follows at once
	abut := func(name string, tk tokenizers.ITokenizer, text string, want []lx) {
		if got := classes(tk.TokenizeBuffer(text)); !same2(got, want) { t.Errorf("%s tokenizer: %q gives %v, the lexemes are %v", name, text, got, want) }
	}
	abut("generic", generic.NewGenericTokenizer(), "7\u0663x", []lx{{"7", I}, {"\u0663x", W}})
	abut("generic", generic.NewGenericTokenizer(), "-1.5\uff15", []lx{{"-1.5", F}, {"\uff15", W}})
	abut("expression", ctok.NewExpressionTokenizer(), "12\u0663", []lx{{"12", I}, {"\u0663", S}})
	abut("expression", ctok.NewExpressionTokenizer(), "2e5\uff15", []lx{{"2e5", F}, {"\uff15", S}})
	abut("expression", ctok.NewExpressionTokenizer(), "3E-\u0967", []lx{{"3", I}, {"E", W}, {"-", S}, {"\u0967", S}})
}
'''


class LexemeFamily(Family):
    @classmethod
    def source(cls, l=3):
        return LEXEME_TEST.replace('@L@', str(l))

    def test_source(self, vals):
        return 'test/calculator', self.source()

    @classmethod
    def bounded_source(cls, prog, fname):
        return 'test/calculator', cls.source(), ('all sequences of up to 3 lexemes over 21 (generic tokenizer) and 36 (expression tokenizer) lexemes of every class - identifiers incl. non-Latin, '
                                                 'keywords in mixed case, integers, decimals, scientific notation, quoted strings with doubled quotes and line breaks, comments, every '
                                                 'multi-character symbol - separated by one blank, and unseparated next to brackets and commas')


CSV_TEST = r'''package csv_test

import (
	"strings"
	"testing"

	"github.com/pip-services3-gox/pip-services3-expressions-gox/csv"
	"github.com/pip-services3-gox/pip-services3-expressions-gox/tokenizers"
)

// C09 (bounded): every table of up to 2 rows x 2 columns over the field pool below, under four configurations and the
// four line endings: fields are written raw when they contain no separator, quote or line break and quote-encoded
// (doubled quotes) otherwise, or always quoted; the text is tokenized with string decoding on and regrouped into rows
// and fields, which must be the original table.
func TestVerifReplay(t *testing.T) {
	fields := []string{"\ufeffname", "", "a", "x y", "яé", "a,b", "q\"r", "\"", "\"\"", "l\r\nm", ";", "'", "\t", "a'b", ",\"\n"}
	type cfg struct { seps []rune; quotes []rune }
	cfgs := []cfg{{[]rune{','}, []rune{'"'}}, {[]rune{'\t'}, []rune{'"', '\''}}, {[]rune{';', ','}, []rune{'\''}}, {[]rune{0x3001, 0xFF1B}, []rune{0x300D, '"'}}}
	eols := []string{"\n", "\r", "\r\n", "\n\r"}
	bad := 0
	for ci, cf := range cfgs {
		for _, eol := range eols {
			tk := csv.NewCsvTokenizer()
			tk.SetFieldSeparators(cf.seps)
			tk.SetQuoteSymbols(cf.quotes)
			tk.SetDecodeStrings(true)
			special := string(cf.seps) + string(cf.quotes) + "\r\n"
			enc := func(f string, always bool, k int) string {
				q := cf.quotes[k%len(cf.quotes)]
				if !always && !strings.ContainsAny(f, special) { return f }
				return string(q) + strings.ReplaceAll(f, string(q), string(q)+string(q)) + string(q)
			}
			var tables [][][]string
			for _, a := range fields { tables = append(tables, [][]string{{a}}) }
			for _, a := range fields { for _, b := range fields { tables = append(tables, [][]string{{a, b}}, [][]string{{a}, {b}}) } }
			for i := 0; i < len(fields); i++ { for j := 0; j < len(fields); j += 3 { tables = append(tables, [][]string{{fields[i], fields[j]}, {fields[(i+j)%len(fields)], fields[(i*j)%len(fields)]}}) } }
			// blank lines are rows too: single-column tables of three and four rows with empty fields between, before and after others
			for _, a := range []string{"", "x", fields[len(fields)-1]} { for _, b := range []string{"", "y"} { for _, c3 := range []string{"", "z"} {
				tables = append(tables, [][]string{{a}, {b}, {c3}}, [][]string{{a}, {b}, {""}, {c3}})
			} } }
			for _, tbl := range tables {
				for _, always := range []bool{false, true} {
					var sb strings.Builder
					for r, row := range tbl {
						for c2, f := range row {
							if c2 > 0 { sb.WriteRune(cf.seps[(r+c2)%len(cf.seps)]) }
							sb.WriteString(enc(f, always, r+c2))
						}
						if r+1 < len(tbl) { sb.WriteString(eol) }
					}
					text := sb.String()
					var got [][]string
					cur, open := []string{}, false
					var toks []*tokenizers.Token
					func() { defer func() { if r := recover(); r != nil { t.Errorf("cfg %d: tokenizing %q panicked: %v", ci, text, r); bad++ } }(); toks = tk.TokenizeBuffer(text) }()
					for _, tok := range toks {
						switch {
						case tok.Type() == tokenizers.Eof:
						case tok.Type() == tokenizers.Eol:
							if tok.Value() != eol { t.Errorf("cfg %d: line ending %q came back as %q (one end-of-line token per line ending)", ci, eol, tok.Value()); bad++ }
							if !open { cur = append(cur, "") }
							got = append(got, cur); cur, open = []string{}, false
						case tok.Type() == tokenizers.Symbol && strings.ContainsRune(string(cf.seps), []rune(tok.Value())[0]) && len([]rune(tok.Value())) == 1:
							if !open { cur = append(cur, "") }
							open = false
						default:
							cur = append(cur, tok.Value()); open = true
						}
					}
					if !open { cur = append(cur, "") }
					got = append(got, cur)
					ok := len(got) == len(tbl)
					for r := 0; ok && r < len(tbl); r++ {
						if len(got[r]) != len(tbl[r]) { ok = false; break }
						for c2 := range tbl[r] { if got[r][c2] != tbl[r][c2] { ok = false } }
					}
					if !ok { t.Errorf("cfg %d eol %q: table %q written as %q reads back as %q", ci, eol, tbl, text, got); bad++ }
					if bad > 8 { t.Fatalf("stopping after %d failures", bad) }
				}
			}
		}
	}
}
'''


@family(r'/csv\.')
class CsvFamily(Family):
    @classmethod
    def source(cls):
        return CSV_TEST

    def test_source(self, vals):
        return 'csv', self.source()

    @classmethod
    def bounded_source(cls, prog, fname):
        return 'csv', cls.source(), ('all tables of up to 2x2 fields over a 14-string pool (empty, blanks, non-Latin, separators, quotes, doubled quotes, line breaks) x 4 separator/quote '
                                     'configurations (one with non-Latin separators and quote) x 4 line endings, single-column tables with blank lines, written raw-when-possible and always-quoted, read back with decoding on')


TREE_TEST = r'''package test_calculator

import (
	"fmt"
	"math/rand"
	"os"
	"strconv"
	"strings"
	"testing"

	"github.com/pip-services3-gox/pip-services3-expressions-gox/calculator"
	"github.com/pip-services3-gox/pip-services3-expressions-gox/calculator/functions"
	"github.com/pip-services3-gox/pip-services3-expressions-gox/calculator/variables"
	"github.com/pip-services3-gox/pip-services3-expressions-gox/variants"
)

// C01 (bounded): syntax trees generated from the statement's precedence table - every ordered pair of binary operators
// in both tree shapes over the operands a, b, c, every unary/postfix operator over every binary one, calls and indexing,
// plus pseudo-random trees up to depth 4 - are printed with minimal and with full parenthesisation, with varying
// spacing, comments and keyword case, compiled and evaluated by the calculator, and compared with the direct
// evaluation of the tree (each node applies its variant operation to its operands in written order), under five
// variable assignments and both operation managers.
type tnode struct { op string; kids []*tnode; leaf string }

var level = map[string]int{"AND": 0, "OR": 0, "XOR": 0, "NOT": 1, "=": 2, "<>": 2, "!=": 2, ">": 2, "<": 2, ">=": 2, "<=": 2,
	"+": 3, "-": 3, "ISNULL": 3, "ISNOTNULL": 3, "NOTIN": 3, "*": 4, "/": 4, "%": 4, "^": 5, "IN": 5, "<<": 5, ">>": 5, "NEG": 6, "IDX": 6, "CALL": 6}

func lvl(n *tnode) int { if n.leaf != "" { return 7 }; if strings.HasPrefix(n.op, "CALL:") { return 6 }; return level[n.op] }

var kwcase = 0

func kw(s string) string {
	kwcase++
	switch kwcase % 3 { case 0: return strings.ToLower(s); case 1: return s }
	return strings.ToUpper(s[:1]) + strings.ToLower(s[1:])
}

func show(n *tnode, full bool, sp func() string) string {
	wrap := func(c *tnode, need bool) string { s := show(c, full, sp); if (need || full) && c.leaf == "" { return "(" + sp() + s + sp() + ")" }; return s }
	if n.leaf != "" { return n.leaf }
	me := lvl(n)
	switch {
	case n.op == "NOT": return kw("NOT") + " " + sp() + wrap(n.kids[0], lvl(n.kids[0]) < 2)
	case n.op == "NEG": return "-" + sp() + wrap(n.kids[0], lvl(n.kids[0]) < 7 && !strings.HasPrefix(n.kids[0].op, "CALL:"))
	case n.op == "ISNULL": return wrap(n.kids[0], lvl(n.kids[0]) < me) + " " + sp() + kw("IS") + " " + sp() + kw("NULL")
	case n.op == "ISNOTNULL": return wrap(n.kids[0], lvl(n.kids[0]) < me) + " " + kw("IS") + " " + sp() + kw("NOT") + " " + kw("NULL")
	case n.op == "IDX": return wrap(n.kids[0], n.kids[0].leaf == "" && !strings.HasPrefix(n.kids[0].op, "CALL:")) + sp() + "[" + sp() + show(n.kids[1], full, sp) + sp() + "]"
	case strings.HasPrefix(n.op, "CALL:"):
		var as []string
		for _, k := range n.kids { as = append(as, show(k, full, sp)) }
		return n.op[5:] + sp() + "(" + sp() + strings.Join(as, sp()+","+sp()) + sp() + ")"
	}
	opText := n.op
	switch n.op { case "AND", "OR", "XOR", "IN": opText = kw(n.op); case "NOTIN": opText = kw("NOT") + " " + kw("IN") }
	return wrap(n.kids[0], lvl(n.kids[0]) < me) + " " + sp() + opText + " " + sp() + wrap(n.kids[1], lvl(n.kids[1]) <= me)
}

func direct(n *tnode, vars map[string]*variants.Variant, ops variants.IVariantOperations, fns functions.IFunctionCollection) (r *variants.Variant, err error) {
	defer func() { if p := recover(); p != nil { r, err = nil, fmt.Errorf("panic: %v", p) } }()
	if n.leaf != "" {
		if v, ok := vars[strings.ToLower(n.leaf)]; ok { return v, nil }
		if n.leaf == "TRUE" { return variants.VariantFromBoolean(true), nil }
		if strings.HasPrefix(n.leaf, "'") { return variants.VariantFromString(strings.Trim(n.leaf, "'")), nil }
		if strings.Contains(n.leaf, ".") { f, _ := strconv.ParseFloat(n.leaf, 32); return variants.VariantFromFloat(float32(f)), nil }
		i, _ := strconv.Atoi(n.leaf)
		return variants.VariantFromInteger(i), nil
	}
	var vs []*variants.Variant
	for _, k := range n.kids {
		v, e := direct(k, vars, ops, fns)
		if e != nil { return nil, e }
		vs = append(vs, v)
	}
	switch n.op {
	case "AND": return ops.And(vs[0], vs[1]); case "OR": return ops.Or(vs[0], vs[1]); case "XOR": return ops.Xor(vs[0], vs[1])
	case "NOT": return ops.Not(vs[0]); case "NEG": return ops.Negative(vs[0])
	case "=": return ops.Equal(vs[0], vs[1]); case "<>", "!=": return ops.NotEqual(vs[0], vs[1])
	case ">": return ops.More(vs[0], vs[1]); case "<": return ops.Less(vs[0], vs[1]); case ">=": return ops.MoreEqual(vs[0], vs[1]); case "<=": return ops.LessEqual(vs[0], vs[1])
	case "+": return ops.Add(vs[0], vs[1]); case "-": return ops.Sub(vs[0], vs[1]); case "*": return ops.Mul(vs[0], vs[1]); case "/": return ops.Div(vs[0], vs[1]); case "%": return ops.Mod(vs[0], vs[1])
	case "^": return ops.Pow(vs[0], vs[1]); case "<<": return ops.Lsh(vs[0], vs[1]); case ">>": return ops.Rsh(vs[0], vs[1])
	case "IN": return ops.In(vs[1], vs[0])
	case "NOTIN": r, e := ops.In(vs[1], vs[0]); if e != nil { return nil, e }; return ops.Not(r)
	case "ISNULL": return variants.VariantFromBoolean(vs[0].IsNull()), nil
	case "ISNOTNULL": return variants.VariantFromBoolean(!vs[0].IsNull()), nil
	case "IDX": return ops.GetElement(vs[0], vs[1])
	}
	f := fns.FindByName(n.op[5:])
	if f == nil { return nil, fmt.Errorf("no function") }
	return f.Calculate(vs, ops)
}

func outcome(v *variants.Variant, err error) string {
	if err != nil { return "error" }
	if v == nil { return "nil" }
	return fmt.Sprintf("%d:%s", v.Type(), v.String())
}

func TestVerifReplay(t *testing.T) {
	seed := int64(1)
	if s, e := strconv.ParseInt(os.Getenv("VERIF_SEED"), 10, 64); e == nil && s != 0 { seed = s }
	rng := rand.New(rand.NewSource(seed))
	L := func(s string) *tnode { return &tnode{leaf: s} }
	B := func(op string, a, b *tnode) *tnode { return &tnode{op: op, kids: []*tnode{a, b}} }
	U := func(op string, a *tnode) *tnode { return &tnode{op: op, kids: []*tnode{a}} }
	bin := []string{"AND", "OR", "XOR", "=", "<>", "!=", ">", "<", ">=", "<=", "+", "-", "NOTIN", "*", "/", "%", "^", "IN", "<<", ">>"}
	un := []string{"NOT", "NEG", "ISNULL", "ISNOTNULL"}
	var trees []*tnode
	for _, o1 := range bin { for _, o2 := range bin {
		trees = append(trees, B(o2, B(o1, L("a"), L("b")), L("c")), B(o1, L("a"), B(o2, L("b"), L("c"))))
	} }
	for _, u := range un { for _, o := range bin {
		trees = append(trees, U(u, B(o, L("a"), L("b"))), B(o, U(u, L("a")), L("b")), B(o, L("a"), U(u, L("b"))))
	} }
	for _, o := range bin {
		trees = append(trees, B(o, &tnode{op: "CALL:Max", kids: []*tnode{L("a"), L("2")}}, L("b")), &tnode{op: "CALL:Sum", kids: []*tnode{B(o, L("a"), L("b")), L("c"), L("1")}},
			&tnode{op: "IDX", kids: []*tnode{L("d"), B(o, L("a"), L("b"))}}, B(o, &tnode{op: "IDX", kids: []*tnode{L("d"), L("1")}}, L("a")),
			&tnode{op: "CALL:If", kids: []*tnode{B(o, L("a"), L("b")), L("'y'"), &tnode{op: "CALL:Max", kids: []*tnode{L("c"), L("a"), L("b")}}}})
	}
	leaves := []string{"a", "b", "c", "d", "1", "2", "0", "2.5", "'s'", "TRUE"}
	var gen func(depth int) *tnode
	gen = func(depth int) *tnode {
		if depth == 0 || rng.Intn(4) == 0 { return L(leaves[rng.Intn(len(leaves))]) }
		switch rng.Intn(8) {
		case 0: return U(un[rng.Intn(len(un))], gen(depth-1))
		case 1: return &tnode{op: "CALL:Max", kids: []*tnode{gen(depth - 1), gen(depth - 1)}}
		case 2: return &tnode{op: "IDX", kids: []*tnode{gen(depth - 1), gen(depth - 1)}}
		}
		return B(bin[rng.Intn(len(bin))], gen(depth-1), gen(depth-1))
	}
	for i := 0; i < @N@; i++ { trees = append(trees, gen(4)) }
	arr := variants.VariantFromArray([]*variants.Variant{variants.VariantFromInteger(1), variants.VariantFromInteger(3), variants.VariantFromString("s")})
	assignments := []map[string]*variants.Variant{
		{"a": variants.VariantFromInteger(6), "b": variants.VariantFromInteger(3), "c": variants.VariantFromInteger(2), "d": arr},
		{"a": variants.VariantFromBoolean(true), "b": variants.VariantFromBoolean(false), "c": variants.VariantFromBoolean(true), "d": arr},
		{"a": variants.VariantFromDouble(2.5), "b": variants.VariantFromLong(-4), "c": variants.VariantFromInteger(0), "d": variants.VariantFromString("xyz")},
		{"a": variants.VariantFromString("3"), "b": variants.EmptyVariant(), "c": variants.VariantFromFloat(1.5), "d": arr},
		{"a": variants.VariantFromInteger(1), "b": arr, "c": variants.VariantFromInteger(3), "d": arr},
	}
	managers := []variants.IVariantOperations{variants.NewTypeUnsafeVariantOperations(), variants.NewTypeSafeVariantOperations()}
	fns := functions.NewDefaultFunctionCollection()
	spaces := []func() string{func() string { return "" }, func() string { return []string{"", " ", "  ", "\t", " /* c */ ", "\n", " /** d **/ ", "/***/", " /* a*b **/\t"}[rng.Intn(9)] }}
	bad := 0
	for _, tr := range trees {
		for vi, full := range []bool{false, true} {
			text := show(tr, full, spaces[vi])
			c := calculator.NewExpressionCalculator()
			c.SetAutoVariables(false)
			if err := c.SetExpression(text); err != nil { t.Errorf("%q (printed from a tree) is rejected: %v", text, err); bad++; continue }
			for ai, asg := range assignments {
				for mi, ops := range managers {
					c.SetVariantOperations(ops)
					vc := variables.NewVariableCollection()
					for k, v := range asg { vc.Add(variables.NewVariable(k, v)) }
					want := outcome(direct(tr, asg, ops, fns))
					var got string
					func() { defer func() { if p := recover(); p != nil { got = fmt.Sprintf("panic: %v", p) } }(); got = outcome(c.EvaluateUsingVariables(vc)) }()
					if got != want { t.Errorf("%q under assignment %d, manager %d evaluates to %s; its syntax tree evaluates to %s", text, ai, mi, got, want); bad++ }
				}
			}
			if bad > 8 { t.Fatalf("stopping after %d failures", bad) }
		}
	}
}
'''


class TreeFamily(Family):
    thorough = {'n': 4000}
    @classmethod
    def source(cls, n=300):
        return TREE_TEST.replace('@N@', str(n))

    def test_source(self, vals):
        return 'test/calculator', self.source()

    @classmethod
    def bounded_source(cls, prog, fname):
        return 'test/calculator', cls.source(), ('every ordered pair of the 20 binary operators in both tree shapes, every unary/postfix operator over and under every binary one, calls and '
                                                 'indexing against every binary operator, 300 pseudo-random trees up to depth 4 (VERIF_SEED); each printed minimally and fully '
                                                 'parenthesised with varying spacing, comments and keyword case; 5 variable assignments x 2 managers; calculator vs direct tree evaluation')


ROUNDTRIP_TEST = r'''package variants_test

import (
	"math"
	"testing"
	"time"

	"github.com/pip-services3-gox/pip-services3-expressions-gox/variants"
)

// C07 (bounded): every widening conversion the statement lists, out and back, over boundary values of the source type
// (0, +-1, +-2^24+1, +-2^31, +-2^53+1, min/max), under the type-unsafe manager; and for every pair of types and every
// sample value: a successful conversion has exactly the requested type, and where the type-safe manager succeeds it
// agrees with the type-unsafe one.
func TestVerifReplay(t *testing.T) {
	unsafe, safe := variants.NewTypeUnsafeVariantOperations(), variants.NewTypeSafeVariantOperations()
	ints := []int{0, 1, -1, 7, 16777217, -16777217, 2147483648, -2147483649, 9007199254740993, -9007199254740993, math.MaxInt64, math.MinInt64}
	back := func(v *variants.Variant, via variants.VariantType, what string) {
		mid, err := unsafe.Convert(v, via)
		if err != nil { t.Errorf("%s: %v (type %d) -> type %d fails: %v", what, v, v.Type(), via, err); return }
		if mid.Type() != via { t.Errorf("%s: %v -> type %d delivered type %d", what, v, via, mid.Type()); return }
		r, err := unsafe.Convert(mid, v.Type())
		if err != nil { t.Errorf("%s: %v -> %v (type %d) -> back fails: %v", what, v, mid, via, err); return }
		if r.Type() != v.Type() || !r.Equals(v) { t.Errorf("%s: %v -> %v -> %v: the round trip through type %d changes the value", what, v, mid, r, via) }
	}
	for _, x := range ints {
		back(variants.VariantFromInteger(x), variants.Long, "integer<->long")
		back(variants.VariantFromLong(int64(x)), variants.Integer, "long<->integer")
		back(variants.VariantFromInteger(x), variants.String, "integer<->string")
		back(variants.VariantFromLong(int64(x)), variants.String, "long<->string")
		if x > -(1<<53) && x < 1<<53 {
			back(variants.VariantFromInteger(x), variants.Double, "integer<->double (exact range)")
			back(variants.VariantFromLong(int64(x)), variants.Double, "long<->double (exact range)")
		}
		if ms := int64(x); ms > math.MinInt64/1000000 && ms < math.MaxInt64/1000000 {
			back(variants.VariantFromInteger(x), variants.TimeSpan, "integer<->time span (milliseconds)")
			back(variants.VariantFromLong(ms), variants.TimeSpan, "long<->time span (milliseconds)")
		}
		if s := int64(x); s > -(1<<40) && s < 1<<40 {
			back(variants.VariantFromInteger(x), variants.DateTime, "integer<->date-time (Unix seconds)")
			back(variants.VariantFromLong(s), variants.DateTime, "long<->date-time (Unix seconds)")
		}
	}
	for _, f := range []float32{0, 1.5, -2.25, 16777216, 3.4e38, 1e-40} { back(variants.VariantFromFloat(f), variants.Double, "float->double") }
	for _, b := range []bool{true, false} {
		for _, via := range []variants.VariantType{variants.Integer, variants.Long, variants.Float, variants.Double, variants.String} { back(variants.VariantFromBoolean(b), via, "boolean<->numeric/string") }
	}
	samples := []*variants.Variant{variants.EmptyVariant(), variants.VariantFromInteger(3), variants.VariantFromLong(-9007199254740993), variants.VariantFromFloat(1.5), variants.VariantFromDouble(-2.25),
		variants.VariantFromString("12"), variants.VariantFromString("x"), variants.VariantFromBoolean(true), variants.VariantFromDateTime(time.Unix(86400, 0)), variants.VariantFromTimeSpan(1500 * time.Millisecond),
		variants.VariantFromArray([]*variants.Variant{variants.VariantFromInteger(1)})}
	for _, v := range samples {
		for to := variants.Null; to <= variants.Array; to++ {
			var ru, rs *variants.Variant
			var eu, es error
			func() { defer func() { if p := recover(); p != nil { t.Errorf("unsafe Convert(%v, %d) panicked: %v", v, to, p) } }(); ru, eu = unsafe.Convert(v, to) }()
			func() { defer func() { if p := recover(); p != nil { t.Errorf("safe Convert(%v, %d) panicked: %v", v, to, p) } }(); rs, es = safe.Convert(v, to) }()
			if eu == nil && ru != nil && to != variants.Object && ru.Type() != to { t.Errorf("unsafe Convert(%v, %d) delivered type %d", v, to, ru.Type()) }
			if es == nil && rs != nil && to != variants.Object && rs.Type() != to { t.Errorf("safe Convert(%v, %d) delivered type %d", v, to, rs.Type()) }
			if es == nil && rs != nil && (eu != nil || ru == nil || ru.Type() != rs.Type() || ru.String() != rs.String()) { t.Errorf("the managers disagree on Convert(%v, %d): safe %v, unsafe %v (%v)", v, to, rs, ru, eu) }
		}
	}
}
'''


class RoundTripFamily(Family):
    @classmethod
    def source(cls):
        return ROUNDTRIP_TEST

    def test_source(self, vals):
        return 'variants', self.source()

    @classmethod
    def bounded_source(cls, prog, fname):
        return 'variants', cls.source(), ('every listed round trip over 12 boundary integers (0, +-1, +-2^24+1, +-2^31, +-2^53+1, min, max), 6 floats and both booleans; '
                                          'requested type and manager agreement for 11 sample values x 11 target types')
