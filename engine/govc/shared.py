"""Ownership scan over the go/ssa IR: instances must not share mutable state through package-level variables.

C19 ("concurrent use of separate instances [is] free of data races") and C05 ("a reused instance behaves like a fresh
one") both rest on a frame condition the per-function VCs cannot see: two instances built by the constructors do not
reach a common object that one of them may write. Constructors allocate (every `New*` result is `fresh`), so the only
way to a common object is a package-level variable. This scan decides, for every package-level variable of the module
whose value can carry a reference (pointer, slice, map, interface, function, channel):

  written-through   some function other than the package initialiser stores through a reference obtained from it
                    (a field, element or map entry of the shared object; an append to it)
  escapes           some function other than the initialiser hands the reference on: stores it into memory it did not
                    allocate as a local, passes it to a call as an argument, returns it, binds it in a closure

A variable that escapes is a finding iff the type it refers to is *mutable*: some function of the module stores to a
field (or into a container held in a field) of a struct reachable from that type through an object it did not allocate
itself (receiver / parameter / loaded reference), i.e. outside construction. Slices and maps that escape are always
mutable (their elements can be assigned by whoever holds them); interface values are resolved to the dynamic types the
initialiser stores.

`//@ shared <Var> <reason>` in the package's contract file accepts one escaping variable (an assumption, listed in the
evidence): the reason has to say why no holder writes through it.
"""
import re


REFKINDS = ('ptr', 'slice', 'map', 'iface', 'sig', 'chan', 'other')


def _kind(prog, ts):
    try:
        return prog.under(ts)['k']
    except KeyError:
        return 'other'


def carries_reference(prog, ts, seen=None):
    seen = seen or set()
    if ts in seen:
        return False
    seen.add(ts)
    td = prog.types.get(ts)
    if td is None:
        return True
    u = prog.under(ts)
    k = u['k']
    if k in ('ptr', 'slice', 'map', 'iface', 'sig', 'chan', 'other'):
        return True
    if k == 'struct':
        return any(carries_reference(prog, f['type'], seen) for f in u['fields'])
    if k == 'array':
        return carries_reference(prog, u['elem'], seen)
    return False


class Scan:
    def __init__(self, prog):
        self.prog = prog
        self.defs = {}      # fn -> {reg name: instr}
        for fn, f in prog.funcs.items():
            d = {}
            for b in f.blocks:
                for i in b['instrs']:
                    if 'n' in i:
                        d[i['n']] = i
            self.defs[fn] = d
        self.mutated = self._mutated_structs()

    # ---- which struct types are written outside construction ----------------------------------------------------
    def _root(self, fn, v, depth=0):
        """follow an address / reference back to where it comes from: ('alloc', instr) | ('param', name) | ('global', name) |
        ('load', instr) | ('call', instr) | ('other', None); collects the struct types of the FieldAddr steps on the way"""
        chain = []
        while depth < 40:
            depth += 1
            k = v.get('k')
            if k == 'global':
                return ('global', v['n']), chain
            if k in ('param', 'freevar'):
                return ('param', v['n']), chain
            if k != 'reg':
                return ('other', None), chain
            i = self.defs[fn].get(v['n'])
            if i is None:
                return ('other', None), chain
            op = i['op']
            if op in ('Alloc', 'MakeSlice', 'MakeMap'):
                return ('alloc', i), chain
            if op == 'FieldAddr':
                chain.append(i['stype'])
                v = i['x']
            elif op in ('IndexAddr', 'Slice', 'ChangeType', 'ChangeInterface', 'MakeInterface', 'Convert'):
                v = i['x']
            elif op == 'TypeAssert':
                v = i['x']
            elif op == 'Extract':
                v = i['tuple'] if 'tuple' in i else i.get('x', {})
            elif op == 'UnOp' and i.get('uop') == '*':
                # a load: the reference stored in a field / element / variable
                a = i['x']
                if a.get('k') == 'global':
                    return ('global', a['n']), chain
                root, ch2 = self._root(fn, a, depth)
                if root[0] == 'alloc' and root[1]['op'] == 'Alloc' and not ch2:
                    # a local variable: whatever was stored into it; approximate by "loaded"
                    return ('load', i), chain
                # loaded from a field of something: the container types on the way are the owners
                return ('load', i), chain + ch2
            elif op == 'Phi':
                return ('load', i), chain
            elif op == 'Call':
                return ('call', i), chain
            else:
                return ('other', None), chain
        return ('other', None), chain

    def _mutated_structs(self):
        """struct type strings with a field (or a container held in a field) stored to through an object the storing
        function did not allocate itself"""
        out = {}
        for fn, f in self.prog.funcs.items():
            if fn.endswith('.init') or '.init#' in fn:
                continue
            for b in f.blocks:
                for i in b['instrs']:
                    addr = None
                    if i['op'] == 'Store':
                        addr = i['addr']
                    elif i['op'] == 'MapUpdate':
                        addr = i['map'] if 'map' in i else i.get('x')
                    elif i['op'] == 'Call' and (i['call'].get('fn') or {}).get('k') == 'builtin' and i['call']['fn']['n'] in ('append', 'copy', 'delete', 'clear') and i['call']['args']:
                        addr = i['call']['args'][0]
                    if addr is None:
                        continue
                    root, chain = self._root(fn, addr)
                    if not chain:
                        continue
                    if root[0] == 'alloc':
                        continue          # construction: the object was allocated by this function
                    if root[0] == 'call' and i['op'] == 'Call':
                        continue
                    for st in chain:
                        out.setdefault(st, set()).add(fn)
        return out

    def reachable_structs(self, ts, seen=None):
        seen = set() if seen is None else seen
        if ts in seen:
            return seen
        seen.add(ts)
        td = self.prog.types.get(ts)
        if td is None:
            return seen
        u = self.prog.under(ts)
        k = u['k']
        if k in ('ptr', 'slice', 'array', 'chan'):
            self.reachable_structs(u['elem'], seen)
        elif k == 'map':
            self.reachable_structs(u['key'], seen)
            self.reachable_structs(u['elem'], seen)
        elif k == 'struct':
            for f in u['fields']:
                self.reachable_structs(f['type'], seen)
        elif k == 'iface':
            for impl in self.prog.implementors(ts) if u.get('methods') else []:
                self.reachable_structs(impl, seen)
        return seen

    def mutable_reason(self, ts):
        k = _kind(self.prog, ts)
        if k in ('slice', 'map'):
            return 'a %s: whoever holds it can assign its elements' % k
        if k == 'sig':
            return None
        if k == 'iface' and not self.prog.under(ts).get('methods'):
            return 'an empty interface: its dynamic type is not known'
        for st in sorted(self.reachable_structs(ts)):
            base = st
            if base in self.mutated:
                return 'a field of %s is written by %s' % (base.rsplit('/', 1)[-1], sorted(self.mutated[base])[0].rsplit('/', 1)[-1])
        return None

    # ---- uses of package-level variables ---------------------------------------------------------------------------
    def global_uses(self):
        """{global: {'escapes': [...], 'writes': [...]}} over all functions but the initialisers"""
        res = {}
        for fn, f in self.prog.funcs.items():
            if fn.endswith('.init') or '.init#' in fn:
                continue
            tainted = {}      # reg -> global name
            changed = True
            instrs = [i for b in f.blocks for i in b['instrs']]
            while changed:
                changed = False
                for i in instrs:
                    n = i.get('n')
                    if n is None or n in tainted:
                        continue
                    src = None
                    op = i['op']
                    if op == 'UnOp' and i.get('uop') == '*':
                        a = i['x']
                        if a.get('k') == 'global':
                            src = a['n']
                        elif a.get('k') == 'reg' and a['n'] in tainted and carries_reference(self.prog, i['t']):
                            src = tainted[a['n']]
                    elif op in ('FieldAddr', 'IndexAddr', 'Slice', 'ChangeType', 'ChangeInterface', 'MakeInterface', 'Convert', 'TypeAssert', 'Lookup'):
                        a = i['x']
                        if a.get('k') == 'reg' and a['n'] in tainted:
                            src = tainted[a['n']]
                        elif a.get('k') == 'global' and op in ('FieldAddr', 'IndexAddr'):
                            src = a['n']
                    elif op == 'Phi':
                        for e in i['edges']:
                            if e.get('k') == 'reg' and e['n'] in tainted:
                                src = tainted[e['n']]
                    elif op == 'Extract':
                        a = i.get('tuple') or i.get('x') or {}
                        if a.get('k') == 'reg' and a['n'] in tainted:
                            src = tainted[a['n']]
                    if src is not None and (op in ('FieldAddr', 'IndexAddr') or carries_reference(self.prog, i.get('t', 'any'))):
                        tainted[n] = src
                        changed = True

            def tn(v):
                if v.get('k') == 'reg' and v['n'] in tainted:
                    return tainted[v['n']]
                return None

            def isref(v):
                return carries_reference(self.prog, v.get('t', 'any'))
            short = fn.rsplit('/', 1)[-1]
            for i in instrs:
                op = i['op']
                if op == 'Store':
                    g = tn(i['addr'])
                    if g:
                        res.setdefault(g, {'escapes': [], 'writes': []})['writes'].append('%s stores through it (line %s)' % (short, i.get('line')))
                    if i['addr'].get('k') == 'global' and False:
                        pass
                    g = tn(i['val'])
                    if g and isref(i['val']):
                        root, _ = self._root(fn, i['addr'])
                        if not (root[0] == 'alloc' and root[1]['op'] == 'Alloc' and not root[1].get('heap', True)):
                            res.setdefault(g, {'escapes': [], 'writes': []})['escapes'].append('%s stores it into memory (line %s)' % (short, i.get('line')))
                elif op == 'MapUpdate':
                    m = i.get('map') or i.get('x') or {}
                    g = tn(m)
                    if g:
                        res.setdefault(g, {'escapes': [], 'writes': []})['writes'].append('%s updates the map (line %s)' % (short, i.get('line')))
                    for key in ('key', 'val', 'value'):
                        v = i.get(key)
                        if isinstance(v, dict) and tn(v) and isref(v):
                            res.setdefault(tn(v), {'escapes': [], 'writes': []})['escapes'].append('%s stores it into a map (line %s)' % (short, i.get('line')))
                elif op in ('Call', 'Defer'):
                    c = i['call']
                    fk = (c.get('fn') or {}).get('k')
                    if fk == 'builtin':
                        nm = c['fn']['n']
                        if nm in ('append', 'copy', 'delete', 'clear') and c['args'] and tn(c['args'][0]):
                            res.setdefault(tn(c['args'][0]), {'escapes': [], 'writes': []})['writes'].append('%s: %s on it (line %s)' % (short, nm, i.get('line')))
                        if nm == 'append':
                            for a in c['args'][1:]:
                                if tn(a) and isref(a) and _kind(self.prog, a.get('t', 'any')) != 'slice':
                                    res.setdefault(tn(a), {'escapes': [], 'writes': []})['escapes'].append('%s appends it to a list (line %s)' % (short, i.get('line')))
                        continue
                    args = list(c['args'])
                    # a static method call passes its receiver as args[0]: a use of the object, not a hand-over - unless the
                    # method gives a reference back (a view, a copy that may share parts with the original)
                    if not c.get('invoke') and c.get('static') and c['static'].startswith('(') and args:
                        if tn(args[0]) and 'n' in i and carries_reference(self.prog, i.get('t', 'int')) and self.prog.types.get(i.get('t'), {}).get('k') != 'tuple':
                            res.setdefault(tn(args[0]), {'escapes': [], 'writes': []})['escapes'].append(
                                '%s calls %s on it, which returns a reference (line %s)' % (short, str(c['static']).rsplit('/', 1)[-1], i.get('line')))
                        args = args[1:]
                    for a in args:
                        g = tn(a)
                        if g and isref(a):
                            callee = c.get('static') or c.get('method') or 'a function value'
                            res.setdefault(g, {'escapes': [], 'writes': []})['escapes'].append('%s passes it to %s (line %s)' % (short, str(callee).rsplit('/', 1)[-1], i.get('line')))
                elif op == 'Return':
                    for v in i['results']:
                        g = tn(v)
                        if g and isref(v):
                            res.setdefault(g, {'escapes': [], 'writes': []})['escapes'].append('%s returns it (line %s)' % (short, i.get('line')))
                elif op == 'MakeClosure':
                    for v in i.get('bindings', []):
                        g = tn(v)
                        if g and isref(v):
                            res.setdefault(g, {'escapes': [], 'writes': []})['escapes'].append('%s binds it in a closure (line %s)' % (short, i.get('line')))
        return res

    def init_dynamic_types(self, gname):
        """the concrete types the initialiser stores into an interface-typed package-level variable"""
        out = set()
        for fn, f in self.prog.funcs.items():
            if not (fn.endswith('.init') or '.init#' in fn):
                continue
            for b in f.blocks:
                for i in b['instrs']:
                    if i['op'] == 'Store' and i['addr'].get('k') == 'global' and i['addr']['n'] == gname:
                        v = i['val']
                        if v.get('k') == 'reg':
                            d = self.defs[fn].get(v['n'])
                            while d is not None and d['op'] in ('MakeInterface', 'ChangeInterface'):
                                out.add(d['x'].get('t'))
                                d = self.defs[fn].get(d['x'].get('n')) if d['x'].get('k') == 'reg' else None
        return out


def scan(prog, declared):
    """declared: {global full name: reason}. Returns (findings, accepted, report lines)"""
    s = Scan(prog)
    uses = s.global_uses()
    findings, accepted, report = [], [], []
    for g, gd in sorted(prog.globals.items()):
        if g.endswith('init$guard') or not g.startswith(prog.module):
            continue
        elem = gd['elem']
        if not carries_reference(prog, elem):
            report.append('%s: holds no reference' % g.rsplit('/', 1)[-1])
            continue
        u = uses.get(g, {'escapes': [], 'writes': []})
        gs = g.rsplit('/', 1)[-1]
        for w in u['writes']:
            findings.append((g, 'the shared object behind %s is written outside the package initialiser: %s' % (gs, w)))
        if not u['escapes']:
            report.append('%s: read in place only (never handed on, never written through)' % gs)
            continue
        types = [elem]
        if _kind(prog, elem) == 'iface':
            dyn = s.init_dynamic_types(g)
            types = sorted(t for t in dyn if t) or [elem]
        why = None
        for t in types:
            why = why or s.mutable_reason(t)
        if why is None:
            report.append('%s: handed on (%s) but refers to an immutable type' % (gs, u['escapes'][0]))
            continue
        if g in declared:
            accepted.append('shared %s: handed on (%s; %d sites) and mutable (%s); accepted: %s' % (gs, u['escapes'][0], len(u['escapes']), why, declared[g]))
            continue
        findings.append((g, 'package-level %s is handed on to instances (%s) and refers to mutable state (%s): separate instances share it' % (gs, u['escapes'][0], why)))
    return findings, accepted, report


# ---- sources of nondeterminism (assumption A2) ---------------------------------------------------------------------
NONDET_CALLS = ('time.Now', 'time.Since', 'time.Until', 'math/rand.', 'crypto/rand.', 'os.Getenv', 'os.Getpid', 'runtime.')


def nondeterminism(prog, cs):
    """A2 says the code is a function of its inputs. Go has few ways not to be one in sequential code: the iteration order of
    a map, the clock, random numbers, the environment. This scan finds every one of them in the module; each must be accepted
    by a directive in the contract file of its package:
      //@ maporder <Func> <reason>        the function ranges over a map and its result is proved not to depend on the order
      //@ nondeterministic <Func> <reason> the function reads the clock / draws random numbers by design
    returns (findings, accepted)"""
    acc = getattr(cs, 'nondet', {})
    findings, accepted = [], []
    for fn, f in sorted(prog.funcs.items()):
        if not fn.startswith(prog.module) and not fn.startswith('(*' + prog.module) and not fn.startswith('(' + prog.module):
            continue
        defs = {i['n']: i for b in f.blocks for i in b['instrs'] if 'n' in i}
        kinds = {}
        for b in f.blocks:
            for i in b['instrs']:
                if i['op'] == 'Range' and prog.under(i['x']['t'])['k'] == 'map':
                    kinds.setdefault('maporder', 'ranges over a map (line %s)' % i.get('line'))
                if i['op'] in ('Call', 'Defer', 'Go'):
                    st = i['call'].get('static') or ''
                    if st.endswith('.init'):
                        continue        # a package initialiser calling the initialisers of the packages it imports
                    if any(st.startswith(p_) or ('.' + p_) in st for p_ in NONDET_CALLS) or any(st.startswith(p_) for p_ in NONDET_CALLS):
                        kinds.setdefault('nondeterministic', 'calls %s (line %s)' % (st, i.get('line')))
                if i['op'] == 'Go':
                    kinds.setdefault('nondeterministic', 'starts a goroutine (line %s)' % i.get('line'))
                if i['op'] == 'Select':
                    kinds.setdefault('nondeterministic', 'select statement (line %s)' % i.get('line'))
        short = fn.rsplit('/', 1)[-1]
        for kind, what in kinds.items():
            key = (kind, fn)
            if key in acc:
                accepted.append('%s %s: %s; accepted: %s' % (kind, short, what, acc[key]))
            else:
                findings.append((fn, '%s %s and no `//@ %s` directive accepts it: its result may differ from run to run' % (short, what, kind)))
    return findings, accepted

