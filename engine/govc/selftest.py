"""Engine self-test: a must-fail corpus (mutants that break a property must fail a named obligation)
and a must-pass corpus (property-preserving edits must raise no alarm). Each is applied to a scratch
copy of /repo outside /repo and /verif and removed immediately."""
import json
import os
import shutil
import subprocess
import tempfile

from . import driver


def run_families(args):
    """the bounded stand-ins decide when a contract no longer fits the code: on the unchanged tree every one of them must pass
    (a stand-in that fails here would turn a harmless restructuring into a false alarm)"""
    from . import replay
    wd = driver.Workdir()
    bad = 0
    try:
        prog, cs = driver.load(driver.REPO, wd.path)
        seen = set()
        for fn in sorted(k for k in cs.funcs if isinstance(k, str)):
            cls = replay.find_family(fn)
            if cls is None:
                continue
            try:
                b = cls.bounded_source(prog, fn)
            except Exception as e:                       # noqa
                print('selftest: %s: bounded_source of %s raised %r' % (fn, cls.__name__, e))
                bad += 1
                continue
            if b is None:
                continue
            pkgdir, src, bound = b
            key = (cls.__name__, pkgdir, hash(src))
            if key in seen:
                continue
            seen.add(key)
            res, out = replay.run_go_test(driver.REPO, pkgdir, src, os.path.join(wd.path, 'fam%d' % len(seen)), timeout=600)
            print('selftest: family %-18s (%s, for %s): %s' % (cls.__name__, pkgdir, fn.rsplit('/', 1)[-1], res))
            if res != 'PASS':
                print(out[-1500:])
                bad += 1
        print('selftest: %d bounded stand-ins run on the unchanged tree, %d did not pass' % (len(seen), bad))
        return 1 if bad else 0
    finally:
        wd.cleanup()


def run_selftest(args):
    if getattr(args, 'families', False):
        return run_families(args)
    # quick: engine smoke test (tools present, exporter runs, contracts parse)
    wd = driver.Workdir()
    try:
        for tool in ('z3-new', 'z3', 'cvc5'):
            if shutil.which(tool) is None:
                print('selftest: solver %s not found' % tool)
                return 1
        prog, cs = driver.load(driver.REPO, wd.path)
        print('selftest: %d functions exported, %d function contracts, %d spec functions, %d lemmas'
              % (len(prog.funcs), len(cs.funcs), len(cs.specs), len(cs.lemmas)))
        if not cs.funcs:
            print('selftest: no contracts found')
            return 1
        # every contract must fit the code it is written for (VC generation only, no solving)
        from .vcgen import Unsupported, ContractError
        from .spec import SpecError
        bad = 0
        for fn in sorted(cs.funcs):
            if cs.funcs[fn].trusted:
                continue
            try:
                vc = driver.gen(prog, cs, fn)
                if not vc.obls:
                    print('selftest: %s generated no obligations' % fn)
                    bad += 1
            except (Unsupported, ContractError, SpecError) as e:
                print('selftest: contract of %s does not fit the code: %s' % (fn, e))
                bad += 1
        for ln in sorted(cs.lemmas):
            if cs.lemmas[ln].axiom:
                continue
            try:
                driver.gen_lemma(prog, cs, ln)
            except (Unsupported, ContractError, SpecError) as e:
                print('selftest: lemma %s: %s' % (ln, e))
                bad += 1
        print('selftest: %d contracts generate verification conditions, %d do not' % (len(cs.funcs), bad))
        return 1 if bad else 0
    finally:
        wd.cleanup()
