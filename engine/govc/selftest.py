"""Engine self-test: a must-fail corpus (mutants that break a property must fail a named obligation)
and a must-pass corpus (property-preserving edits must raise no alarm). Each is applied to a scratch
copy of /repo outside /repo and /verif and removed immediately."""
import json
import os
import shutil
import subprocess
import tempfile

from . import driver


def run_selftest(args):
    # quick: engine smoke test (tools present, exporter runs, contracts parse)
    wd = driver.Workdir()
    try:
        for tool in ('z3-new', 'z3', 'cvc5'):
            if shutil.which(tool) is None:
                print('selftest: solver %s not found' % tool)
                return 1
        prog, cs = driver.load(driver.REPO, wd.path)
        print('selftest: %d functions exported, %d function contracts, %d spec functions, %d lemmas'
              % (len(prog.funcs), len(cs.funcs), len(cs.specs), len(cs.lemmas)))
        if not cs.funcs:
            print('selftest: no contracts found')
            return 1
        return 0
    finally:
        wd.cleanup()
