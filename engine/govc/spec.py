"""Contract language: tokenizer, expression parser, contract-file parser.

Contracts are `//@` comment lines in /repo/<pkg>/contracts_verif.go (build tag verif).
"""
import re


class SpecError(Exception):
    pass


TOK_RE = re.compile(r"""
    (?P<ws>\s+)
  | (?P<num>0[xX][0-9a-fA-F]+|\d+\.\d+|\d+)
  | (?P<id>[A-Za-z_$][A-Za-z_0-9$]*)
  | (?P<str>"(?:[^"\\]|\\.)*")
  | (?P<chr>'(?:[^'\\]|\\.)+')
  | (?P<op><==>|==>|::|&&|\|\||==|!=|<=|>=|<<|>>|\+\+|[-+*/%<>!?:.,()\[\]{}=&|^])
""", re.X)

ESC = {'n': 10, 'r': 13, 't': 9, '\\': 92, "'": 39, '"': 34, '0': 0}


def tokenize(s):
    out = []
    i = 0
    while i < len(s):
        m = TOK_RE.match(s, i)
        if not m:
            raise SpecError('bad character %r in spec %r' % (s[i], s))
        i = m.end()
        k = m.lastgroup
        if k == 'ws':
            continue
        out.append((k, m.group(k)))
    out.append(('eof', ''))
    return out


class Parser:
    def __init__(self, text):
        self.text = text
        self.toks = tokenize(text)
        self.i = 0

    def peek(self, o=0):
        return self.toks[min(self.i + o, len(self.toks) - 1)]

    def next(self):
        t = self.toks[self.i]
        self.i += 1
        return t

    def accept(self, v):
        if self.peek()[1] == v and self.peek()[0] in ('op', 'id'):
            self.i += 1
            return True
        return False

    def expect(self, v):
        if not self.accept(v):
            raise SpecError('expected %r at %r in %r' % (v, self.peek()[1], self.text))

    def at_end(self):
        return self.peek()[0] == 'eof'

    # ---- types ------------------------------------------------------------
    def parse_type(self):
        if self.accept('*'):
            return ('ptr', self.parse_type())
        if self.accept('['):
            self.expect(']')
            return ('slice', self.parse_type())
        k, v = self.next()
        if k != 'id':
            raise SpecError('type expected at %r in %r' % (v, self.text))
        if v == 'seq' or v == 'map' or v == 'fmap':
            self.expect('[')
            t = self.parse_type()
            if v == 'map':
                self.expect(']')
                t2 = self.parse_type()
                return ('map', t, t2)
            self.expect(']')
            return (v, t)
        if self.peek()[1] == '.' and self.peek(1)[0] == 'id':
            self.next()
            v = v + '.' + self.next()[1]
        return ('name', v)

    def parse_params(self):
        """(a T, b, c U) -> [(name, type)]"""
        self.expect('(')
        ps = []
        pend = []
        while not self.accept(')'):
            k, v = self.next()
            if k != 'id':
                raise SpecError('param name expected in %r' % self.text)
            pend.append(v)
            if self.accept(','):
                continue
            if self.peek()[1] == ')':
                # untyped trailing names default to int
                for n in pend:
                    ps.append((n, ('name', 'int')))
                pend = []
                continue
            t = self.parse_type()
            for n in pend:
                ps.append((n, t))
            pend = []
            self.accept(',')
        return ps

    # ---- expressions --------------------------------------------------------
    def parse_expr(self):
        return self.p_iff()

    def p_iff(self):
        a = self.p_imp()
        while self.accept('<==>'):
            b = self.p_imp()
            a = ('binop', '<==>', a, b)
        return a

    def p_imp(self):
        a = self.p_ite()
        if self.accept('==>'):
            b = self.p_imp()
            return ('binop', '==>', a, b)
        return a

    def p_ite(self):
        if self.peek() in (('id', 'forall'), ('id', 'exists')):
            q = self.next()[1]
            vs = []
            while True:
                k, v = self.next()
                if k != 'id':
                    raise SpecError('bound variable expected in %r' % self.text)
                t = ('name', 'int')
                if self.peek()[1] not in (',', '::'):
                    t = self.parse_type()
                vs.append((v, t))
                if self.accept(','):
                    continue
                break
            self.expect('::')
            body = self.p_iff()
            return (q, vs, body)
        c = self.p_or()
        if self.accept('?'):
            a = self.p_ite()
            self.expect(':')
            b = self.p_ite()
            return ('ite', c, a, b)
        return c

    def p_or(self):
        a = self.p_and()
        while self.accept('||'):
            a = ('binop', '||', a, self.p_and())
        return a

    def p_and(self):
        a = self.p_cmp()
        while self.accept('&&'):
            a = ('binop', '&&', a, self.p_cmp())
        return a

    def p_cmp(self):
        a = self.p_add()
        while self.peek()[0] == 'op' and self.peek()[1] in ('==', '!=', '<', '<=', '>', '>='):
            op = self.next()[1]
            b = self.p_add()
            a = ('binop', op, a, b)
        return a

    def p_add(self):
        a = self.p_mul()
        while self.peek()[0] == 'op' and self.peek()[1] in ('+', '-', '++'):
            op = self.next()[1]
            a = ('binop', op, a, self.p_mul())
        return a

    def p_mul(self):
        a = self.p_un()
        while self.peek()[0] == 'op' and self.peek()[1] in ('*', '/', '%'):
            op = self.next()[1]
            a = ('binop', op, a, self.p_un())
        return a

    def p_un(self):
        if self.accept('!'):
            return ('unop', '!', self.p_un())
        if self.accept('-'):
            return ('unop', '-', self.p_un())
        return self.p_post()

    def p_post(self):
        e = self.p_prim()
        while True:
            if self.peek() == ('op', '.'):
                if self.peek(1) == ('op', '('):
                    self.next()
                    self.next()
                    t = self.parse_type()
                    self.expect(')')
                    e = ('assert', e, t)
                    continue
                self.next()
                k, v = self.next()
                if k != 'id':
                    raise SpecError('field name expected in %r' % self.text)
                e = ('field', e, v)
            elif self.peek() == ('op', '['):
                self.next()
                if self.accept(':'):
                    hi = self.parse_expr()
                    self.expect(']')
                    e = ('slice', e, None, hi)
                    continue
                i = self.parse_expr()
                if self.accept(':'):
                    hi = None
                    if self.peek()[1] != ']':
                        hi = self.parse_expr()
                    self.expect(']')
                    e = ('slice', e, i, hi)
                else:
                    self.expect(']')
                    e = ('index', e, i)
            elif self.peek() == ('op', '(') and e[0] == 'id':
                self.next()
                args = []
                while not self.accept(')'):
                    args.append(self.parse_expr())
                    self.accept(',')
                e = ('call', e[1], args)
            else:
                return e

    def p_prim(self):
        k, v = self.next()
        if k == 'num':
            if '.' in v:
                return ('fnum', v)
            return ('num', int(v, 0))
        if k == 'chr':
            body = v[1:-1]
            if body[0] == '\\':
                if body[1] == 'u' or body[1] == 'x':
                    return ('num', int(body[2:], 16))
                return ('num', ESC[body[1]])
            return ('num', ord(body))
        if k == 'str':
            return ('str', bytes(v[1:-1], 'utf-8').decode('unicode_escape') if '\\' in v else v[1:-1])
        if k == 'id':
            if v == 'true':
                return ('bool', True)
            if v == 'false':
                return ('bool', False)
            if v == 'nil':
                return ('nil',)
            return ('id', v)
        if (k, v) == ('op', '('):
            e = self.parse_expr()
            self.expect(')')
            return e
        raise SpecError('unexpected %r in %r' % (v, self.text))


def parse_expr(text):
    p = Parser(text)
    e = p.parse_expr()
    if not p.at_end():
        raise SpecError('trailing input %r in %r' % (p.peek()[1], text))
    return e


# ---------------------------------------------------------------------------
# contract files


class SpecDef:
    def __init__(self, kind, name, params, ret, body, decreases, pkg, text):
        self.kind = kind        # spec | rec | pred
        self.name = name
        self.params = params    # [(name, typeast)]
        self.ret = ret          # typeast
        self.body = body
        self.decreases = decreases
        self.pkg = pkg
        self.text = text


class Clause:
    def __init__(self, tags, expr, text):
        self.tags = tags
        self.expr = expr
        self.text = text


class LoopContract:
    def __init__(self):
        self.invariants = []   # Clause
        self.decreases = None  # Clause
        self.modifies = None
        self.repeats = []      # Clause: must hold whenever the body goes round again (`repeat-only-if`)


class FuncContract:
    def __init__(self, key, pkg, text):
        self.key = key
        self.pkg = pkg
        self.header = text
        self.requires = []
        self.ensures = []
        self.assigns = None      # None = unspecified (everything); [] = nothing
        self.nopanic = False
        self.maypanic = False
        self.inline = False
        self.trusted = False
        self.pure = False
        self.decreases = None
        self.loops = {}
        self.ghost = []
        self.uses = []           # lemma instantiations: (site, name, [args])
        self.recv_name = None
        self.param_names = None
        self.tags = []
        self.opaque = False
        self.assume_terminates = None
        self.callsites = []
        self.alias_recv = None
        self.recgroup = None

    def all_text(self):
        parts = [self.header]
        for c in self.requires:
            parts.append('requires ' + c.text)
        for c in self.ensures:
            parts.append('ensures ' + c.text)
        return '\n'.join(parts)


class LemmaDef:
    def __init__(self, name, params, pkg):
        self.name = name
        self.params = params
        self.pkg = pkg
        self.requires = []
        self.ensures = []
        self.decreases = None
        self.induction = None   # list of arg exprs for the IH instance (may be several instances)
        self.uses = []
        self.axiom = False
        self.tags = []
        self.triggers = []
        self.order = 0


FUNC_CLAUSES = ('requires', 'ensures', 'assigns', 'nopanic', 'maypanic', 'devirt', 'globals', 'inline', 'trusted', 'pure', 'decreases',
                'loop', 'invariant', 'use', 'tags', 'modifies', 'opaque', 'induction', 'trigger', 'terminates', 'callsite', 'recgroup', 'repeat-only-if')


def strip_comment(s):
    # `--` starts a comment inside a contract line
    i = s.find(' -- ')
    if i >= 0:
        s = s[:i]
    if s.strip().startswith('--'):
        return ''
    return s


class ContractSet:
    def __init__(self):
        self.specs = {}      # name -> SpecDef
        self.funcs = {}      # full go/ssa function name -> FuncContract
        self.ifaces = {}
        self.functypes = {}
        self.shared = {}         # package-level variable (full name) -> reason it may be shared between instances
        self.globalinvs = []     # (pkg, Clause)     # (iface full type string, method) -> FuncContract
        self.lemmas = {}     # name -> LemmaDef
        self.impl = {}       # iface type string -> concrete receiver type string (assumption A1)
        self.assumptions = []  # textual list of trusted / axiom / assume-impl items
        self.pkg_short = {}

    def parse_file(self, prog, pkg, text, fname):
        lines = []
        for raw in text.split('\n'):
            st = raw.strip()
            if st.startswith('//@'):
                lines.append(strip_comment(st[3:]))
        # group into directives: a line whose first char (after one optional space) is non-space
        groups = []
        for l in lines:
            if not l.strip():
                continue
            body = l[1:] if l.startswith(' ') else l
            if body and not body[0].isspace():
                groups.append([body.rstrip()])
            else:
                if not groups:
                    raise SpecError('%s: continuation without directive: %r' % (fname, l))
                groups[-1].append(body.strip())
        for g in groups:
            try:
                self.parse_directive(prog, pkg, g)
            except SpecError as e:
                raise SpecError('%s: %s' % (fname, e))

    def resolve_recv(self, prog, pkg, tast):
        return resolve_type(prog, pkg, tast)

    def parse_directive(self, prog, pkg, g):
        self._prog, self._pkg = prog, pkg
        head = g[0]
        word = head.split(None, 1)[0]
        if word in ('spec', 'rec', 'pred'):
            text = ' '.join(g)
            self.parse_specdef(pkg, word, text[len(word):].strip())
        elif word == 'ufun':
            # ufun name(params) ret : an uninterpreted (ghost) function of its arguments
            text = ' '.join(g)[len(word):].strip()
            m = re.match(r'([A-Za-z_][A-Za-z_0-9]*)\s*', text)
            p = Parser(text[m.end():])
            params = p.parse_params()
            ret = p.parse_type()
            self.specs[m.group(1)] = SpecDef('ufun', m.group(1), params, ret, None, None, pkg, text)
        elif word in ('func', 'interface', 'functype'):
            self.parse_func(prog, pkg, word, g)
        elif word in ('lemma', 'axiom'):
            self.parse_lemma(prog, pkg, word, g)
        elif word == 'globalinv':
            # globalinv <expr>: a fact about package-level variables that the package initialiser establishes (verified on
            # `init`) and that holds ever after because no other function stores to them (checked by a scan)
            text = ' '.join(g)[len(word):].strip()
            self.globalinvs.append((pkg, Clause([], ('inpkg', pkg, parse_expr(text)), text)))
        elif word == 'shared':
            # shared <Var> <reason>: the package-level variable refers to mutable state and is handed on to instances (found by
            # the ownership scan, shared.py); accepted as an assumption: the reason says why no holder writes through it
            m = re.match(r'shared\s+([A-Za-z_][A-Za-z_0-9]*)\s+(.*)', ' '.join(g))
            if not m:
                raise SpecError('bad shared: %r' % head)
            self.shared[pkg + '.' + m.group(1)] = m.group(2).strip()
        elif word in ('maporder', 'nondeterministic'):
            # maporder <Func> <reason> / nondeterministic <Func> <reason>: accepts one source of nondeterminism found by the scan
            # (shared.nondeterminism); the function is named as in `func` directives: Name or (c *T) Name
            m = re.match(r'(maporder|nondeterministic)\s+(\([^)]*\)\s*\w+|\w+)\s+(.*)', ' '.join(g))
            if not m:
                raise SpecError('bad %s: %r' % (word, head))
            nm = m.group(2)
            m2 = re.match(r'\(\s*\w+\s+(\*?)(\w+)\s*\)\s*(\w+)', nm)
            if m2:
                full = '(%s%s.%s).%s' % (m2.group(1), pkg, m2.group(2), m2.group(3))
            else:
                full = pkg + '.' + nm
            if full not in prog.funcs:
                raise SpecError('%s: no function %s' % (word, full))
            self.__dict__.setdefault('nondet', {})[(word, full)] = m.group(3).strip()
        elif word == 'assume-impl':
            # assume-impl io.IScanner = *io.StringScanner
            m = re.match(r'assume-impl\s+(\S+)\s*=\s*(\S+)', ' '.join(g))
            if not m:
                raise SpecError('bad assume-impl: %r' % head)
            it = resolve_type(prog, pkg, Parser(m.group(1)).parse_type())
            ct = resolve_type(prog, pkg, Parser(m.group(2)).parse_type())
            self.impl[it] = ct
            self.assumptions.append('assume-impl: every %s is a %s' % (m.group(1), m.group(2)))
        else:
            raise SpecError('unknown directive %r' % head)

    def parse_specdef(self, pkg, kind, text):
        # name(params) ret [decreases e] = body
        m = re.match(r'([A-Za-z_][A-Za-z_0-9]*)\s*', text)
        name = m.group(1)
        p = Parser(text[m.end():])
        params = p.parse_params()
        ret = ('name', 'bool')
        if kind != 'pred' and p.peek()[1] not in ('=', 'decreases'):
            ret = p.parse_type()
        dec = None
        # find the top-level '=' separating header and body: first '=' token (not ==)
        if p.accept('decreases'):
            # parse expression up to '='
            j = p.i
            depth = 0
            while True:
                k, v = p.toks[j]
                if k == 'eof':
                    raise SpecError('missing = in %s' % name)
                if v in '([':
                    depth += 1
                if v in ')]':
                    depth -= 1
                if v == '=' and depth == 0:
                    break
                j += 1
            sub = Parser('')
            sub.toks = p.toks[p.i:j] + [('eof', '')]
            sub.text = text
            dec = sub.parse_expr()
            p.i = j
        p.expect('=')
        body = p.parse_expr()
        if not p.at_end():
            raise SpecError('trailing input in %s %s: %r' % (kind, name, p.peek()[1]))
        if name in self.specs:
            raise SpecError('duplicate spec function %s' % name)
        self.specs[name] = SpecDef(kind, name, params, ret, body, dec, pkg, text)

    def inpkg(self, expr):
        """a clause is evaluated in the package of the contract file it was written in, also when it is checked as
        part of another contract (an implementation against an interface contract of another package)"""
        return ('inpkg', self._pkg, expr) if getattr(self, '_pkg', None) else expr

    def parse_clauses(self, g, target, loops_ok=True):
        """parse clause lines g[1:] into target (FuncContract or LemmaDef)"""
        # merge continuation lines (not starting with a clause keyword)
        clauses = []
        for l in g[1:]:
            w = re.match(r'[a-z\-]+', l)
            kw = w.group(0) if w else ''
            if kw in FUNC_CLAUSES:
                clauses.append(l)
            else:
                if not clauses:
                    raise SpecError('continuation before first clause: %r' % l)
                clauses[-1] += ' ' + l
        cur_loop = None
        for c in clauses:
            m = re.match(r'([a-z\-]+)(\[[^\]]*\])?\s*(.*)$', c, re.S)
            kw, tags, rest = m.group(1), m.group(2), m.group(3).strip()
            tags = [t.strip() for t in tags[1:-1].split(',')] if tags else []
            if kw == 'requires':
                target.requires.append(Clause(tags, self.inpkg(parse_expr(rest)), rest))
            elif kw == 'ensures':
                target.ensures.append(Clause(tags, self.inpkg(parse_expr(rest)), rest))
            elif kw == 'assigns':
                if rest == 'nothing':
                    target.assigns = []
                else:
                    target.assigns = (target.assigns or []) + [parse_assign_target(x) for x in split_top(rest)]
            elif kw == 'nopanic':
                target.nopanic = True
            elif kw == 'inline':
                target.inline = True
            elif kw == 'opaque':
                # opaque f, g: the recursive spec functions f, g are not unfolded in this function's VCs (its proof
                # only relates their values through the callees' postconditions)
                target.opaque = [x.strip() for x in rest.split(',') if x.strip()] or True
            elif kw == 'trusted':
                target.trusted = True
            elif kw == 'callsite':
                # callsite <callee short name> requires <expr> : extra obligation at every call of that callee
                # (callee#k : only the k-th call of that callee in this function, counted from 0 in source-line order)
                m2 = re.match(r'(\w+(?:#\d+)?)\s+requires\s+(.*)$', rest, re.S)
                if not m2:
                    raise SpecError('bad callsite clause %r' % rest)
                target.callsites.append((m2.group(1), Clause(tags, parse_expr(m2.group(2)), m2.group(2))))
            elif kw == 'recgroup':
                target.recgroup = rest.strip()
            elif kw == 'terminates':
                # `terminates assumed <reason>`: recursion without a checkable measure; recorded as an assumption
                target.assume_terminates = rest
            elif kw == 'devirt':
                # devirt I = *T : calls through interface I inside this function go to T's methods; that the
                # receiver holds a T is an obligation at each such call
                m2 = re.match(r'(\S+)\s*=\s*(\S+)$', rest)
                if not m2:
                    raise SpecError('bad devirt clause %r' % rest)
                if getattr(target, 'devirt', None) is None:
                    target.devirt = {}
                target.devirt[resolve_type(self._prog, self._pkg, Parser(m2.group(1)).parse_type())] = resolve_type(self._prog, self._pkg, Parser(m2.group(2)).parse_type())
            elif kw == 'globals':
                # the function relies on the package-level invariants (`globalinv`): they are assumed at its entry
                target.uses_globals = True
            elif kw == 'maypanic':
                # the function may panic instead of returning (its callers recover): run-time panics inside it end
                # the path instead of being proof obligations
                target.maypanic = True
            elif kw == 'pure':
                target.pure = True
                target.assigns = []
            elif kw == 'tags':
                target.tags = [t.strip() for t in rest.split(',')]
            elif kw == 'decreases':
                cl = Clause(tags, [parse_expr(x) for x in split_top(rest)], rest)
                if cur_loop is not None:
                    cur_loop.decreases = cl
                else:
                    target.decreases = cl
            elif kw == 'loop':
                cur_loop = LoopContract()
                target.loops[int(rest)] = cur_loop
            elif kw == 'invariant':
                if cur_loop is None:
                    raise SpecError('invariant outside loop')
                cur_loop.invariants.append(Clause(tags, self.inpkg(parse_expr(rest)), rest))
            elif kw == 'repeat-only-if':
                # repeat-only-if <expr>: an obligation on every back edge of the loop, with the locals of the body in scope:
                # the body goes round again only when expr holds (e.g. a token is dropped only if its skip option is on)
                if cur_loop is None:
                    raise SpecError('repeat-only-if outside loop')
                cur_loop.repeats.append(Clause(tags, self.inpkg(parse_expr(rest)), rest))
            elif kw == 'modifies':
                cur_loop.modifies = [parse_assign_target(x) for x in split_top(rest)]
            elif kw == 'use':
                # use lemma(args) [at callN|loopN|exit]
                cond = None
                if ' if ' in rest:
                    rest, ctext = rest.split(' if ', 1)
                    cond = parse_expr(ctext)
                    rest = rest.strip()
                m2 = re.match(r'(\w+)\s*\((.*)\)\s*(?:at\s+(\S+))?$', rest, re.S)
                if not m2:
                    raise SpecError('bad use clause %r' % rest)
                args = [parse_expr(x) for x in split_top(m2.group(2))] if m2.group(2).strip() else []
                site = m2.group(3) or ('loop%d' % sorted(target.loops)[-1] if cur_loop is not None and False else 'all')
                target.uses.append((site, m2.group(1), args, cond))
            elif kw == 'trigger':
                m2 = re.match(r'(\w+)\s*\((.*)\)$', rest)
                target.triggers.append((m2.group(1), [x.strip() for x in m2.group(2).split(',')]))
            elif kw == 'induction':
                target.induction = (target.induction or []) + [[parse_expr(x) for x in split_top(rest)]]
            else:
                raise SpecError('clause %r not allowed here' % kw)

    def parse_func(self, prog, pkg, word, g):
        head = g[0][len(word):].strip()
        fc = None
        if word == 'interface':
            # interface ITokenizerState.NextToken(scanner, tokenizer)
            m = re.match(r'([\w.]+)\.(\w+)\s*(\(([^)]*)\))?', head)
            if not m:
                raise SpecError('bad interface header %r' % head)
            its = resolve_type(prog, pkg, Parser(m.group(1)).parse_type())
            fc = FuncContract((its, m.group(2)), pkg, g[0])
            if m.group(4) is not None:
                names = [x.strip() for x in m.group(4).split(',') if x.strip()]
                fc.recv_name = names[0] if names else 'self'
                fc.param_names = names[1:]
            self.ifaces[(its, m.group(2))] = fc
        elif word == 'functype':
            # functype FunctionCalculator(parameters, variantOperations): contract of every value of a named func type
            m = re.match(r'([\w.]+)\s*\(([^)]*)\)', head)
            if not m:
                raise SpecError('bad functype header %r' % head)
            fts = resolve_type(prog, pkg, Parser(m.group(1)).parse_type())
            fc = FuncContract(('functype', fts), pkg, g[0])
            fc.recv_name = None
            fc.param_names = [x.strip() for x in m.group(2).split(',') if x.strip()]
            self.functypes[fts] = fc
            self.assumptions.append('A7: function values of type %s supplied by callers are assumed to satisfy its functype contract (the built-in ones are verified against it)' % fts.rsplit('/', 1)[-1])
        else:
            m = re.match(r'\(\s*(\w+)\s+([^)]+)\)\s*(\w+)', head)
            if m:
                rts = resolve_type(prog, pkg, Parser(m.group(2)).parse_type())
                if rts.startswith('*'):
                    key = '(%s).%s' % (rts, m.group(3))
                else:
                    key = '(%s).%s' % (rts, m.group(3))
                fc = FuncContract(key, pkg, g[0])
                fc.recv_name = m.group(1)
            else:
                m = re.match(r'([\w$]+)', head)
                key = pkg + '.' + m.group(1)
                fc = FuncContract(key, pkg, g[0])
            if key not in prog.funcs:
                raise SpecError('contract for unknown function %s' % key)
            if key in self.funcs:
                raise SpecError('duplicate contract for %s' % key)
            self.funcs[key] = fc
        self.parse_clauses(g, fc)
        if fc.trusted:
            self.assumptions.append('trusted contract (not verified): %s' % (fc.key,))
        if fc.assume_terminates:
            self.assumptions.append('termination of the recursion in %s assumed: %s' % (fc.key, fc.assume_terminates))

    def parse_lemma(self, prog, pkg, word, g):
        g = list(g)
        while len(g) > 1 and not re.match(r'[a-z\-]+', g[1]).group(0) in FUNC_CLAUSES if len(g) > 1 and re.match(r'[a-z\-]+', g[1]) else len(g) > 1:
            g[0] = g[0] + ' ' + g[1]
            del g[1]
        head = g[0][len(word):].strip()
        m = re.match(r'(\w+)\s*', head)
        name = m.group(1)
        p = Parser(head[m.end():])
        params = p.parse_params() if p.peek()[1] == '(' else []
        lm = LemmaDef(name, params, pkg)
        lm.axiom = (word == 'axiom')
        self.parse_clauses(g, lm)
        lm.order = len(self.lemmas)
        self.lemmas[name] = lm
        if lm.axiom:
            self.assumptions.append('axiom (assumed, not proved): %s' % name)


def split_top(s):
    """split on commas at nesting depth 0"""
    out = []
    depth = 0
    cur = ''
    for ch in s:
        if ch in '([':
            depth += 1
        elif ch in ')]':
            depth -= 1
        if ch == ',' and depth == 0:
            out.append(cur.strip())
            cur = ''
        else:
            cur += ch
    if cur.strip():
        out.append(cur.strip())
    return out


def parse_assign_target(s):
    """c.f | c.f[*] | x.f.g | *p | fresh-only"""
    s = s.strip()
    m = re.match(r'^any\((\w+(?:\.\w+)?)\)\.(\w+)$', s)
    if m:
        # any(T).f : field f of every object of struct type T
        return ('fieldall', (m.group(1), m.group(2)), s)
    star = False
    if s.endswith('[*]'):
        star = True
        s = s[:-3]
    return ('elems' if star else 'loc', parse_expr(s), s)


BASIC = {'int', 'int8', 'int16', 'int32', 'int64', 'uint', 'uint8', 'uint16', 'uint32', 'uint64', 'uintptr',
         'rune', 'byte', 'bool', 'string', 'float32', 'float64', 'any', 'error'}


def resolve_type(prog, pkg, tast):
    """type AST -> type string of the exported type table (or pseudo types seq[T])"""
    k = tast[0]
    if k == 'ptr':
        return '*' + resolve_type(prog, pkg, tast[1])
    if k == 'slice':
        return '[]' + resolve_type(prog, pkg, tast[1])
    if k == 'seq':
        return 'seq[' + resolve_type(prog, pkg, tast[1]) + ']'
    if k == 'fmap':
        return 'fmap[' + resolve_type(prog, pkg, tast[1]) + ']'
    if k == 'map':
        return 'map[' + resolve_type(prog, pkg, tast[1]) + ']' + resolve_type(prog, pkg, tast[2])
    n = tast[1]
    if n in BASIC:
        if n == 'rune':
            return 'int32'
        if n == 'byte':
            return 'uint8'
        if n == 'any':
            return 'any' if 'any' in prog.types else 'interface{}'
        return n
    if '.' not in n:
        full = pkg + '.' + n
        if full in prog.types or full in prog.named:
            return full
        raise SpecError('unknown type %s in package %s' % (n, pkg))
    cands = prog.short_named.get(n, [])
    if len(cands) == 1:
        return cands[0]
    if not cands:
        raise SpecError('unknown type %s' % n)
    raise SpecError('ambiguous type %s: %s' % (n, cands))
