"""Semantics of Go built-ins, conversions, slices, maps, and trusted models of stdlib functions."""
from .smt import V, num, sym, and_, or_, not_, imp, ite, eq, INT_RANGES, smt_sort
from .vcgen import Loc, Unsupported, MAXLEN, san


def const_array(vc, es, zero):
    return '((as const (Array Int %s)) %s)' % (vc.ssort(es), zero)


def new_ref(ex, base):
    vc = ex.vc
    ref = vc.define(ex.nm(base), 'Int', ex.st.alloc)
    ex.st.alloc = vc.define(ex.nm('alloc'), 'Int', '(+ %s 1)' % ref)
    return ref


# ---- conversions ---------------------------------------------------------------------------------

def convert(ex, ins):
    vc = ex.vc
    prog = ex.prog
    x = ex.val(ins['x'])
    fts = ins['x']['t']
    tts = ins['t']
    ftd = prog.under(fts)
    ttd = prog.under(tts)
    fs = x.sort
    ts = vc.sort_of(tts)
    if fs == 'Int' and ts == 'Int':
        fk, tk = vc.int_kind(fts), vc.int_kind(tts)
        if fk and tk:
            flo, fhi = INT_RANGES[fk]
            tlo, thi = INT_RANGES[tk]
            if tlo <= flo and fhi <= thi:
                ex.vals[ins['n']] = V(x.term, 'Int', tts)
            else:
                ex.setv(ins, V(ex.wrap(x.term, tts), 'Int', tts))
            return
        ex.vals[ins['n']] = V(x.term, 'Int', tts)
        return
    if fs == 'Int' and ts in ('F64', 'F32'):
        ex.setv(ins, V(i2f_term(vc, x.term, ts), ts, tts))
        return
    if fs in ('F64', 'F32') and ts == 'Int':
        tk = vc.int_kind(tts)
        t = f2i_term(vc, x.term, fs, tk)
        ex.setv(ins, V(t, 'Int', tts))
        vc.range_assume(ex.vals[ins['n']], ex.reach)
        return
    if fs in ('F64', 'F32') and ts in ('F64', 'F32'):
        if fs == ts:
            ex.vals[ins['n']] = V(x.term, ts, tts)
        else:
            e, m = (11, 53) if ts == 'F64' else (8, 24)
            ex.setv(ins, V('((_ to_fp %d %d) RNE %s)' % (e, m, x.term), ts, tts))
        return
    if fs == 'Str' and ts == 'Slice':
        etd = prog.under(ttd['elem'])
        if etd['k'] == 'basic' and etd['name'] in ('int32', 'rune'):
            arr = new_ref(ex, ins['n'] + '$arr')
            hn, hs = vc.elem_heap('Int')
            ex.st.set(hn, vc.define(hn, hs, '(store %s %s (gs.runes %s))' % (ex.st.get(hn, hs), arr, x.term)))
            n = '(gs.rlen %s)' % x.term
            vc.assume('(and (<= 0 %s) (<= %s %d))' % (n, n, MAXLEN), ex.reach)
            # decoding yields Unicode scalar values (U+FFFD for invalid bytes)
            vc.assume_forall(ex.reach, lambda i, s=x.term: '(=> (and (<= 0 %s) (< %s (gs.rlen %s))) (scalar (gs.at %s %s)))' % (i, i, s, s, i))
            ex.setv(ins, V('(mkslice %s 0 %s %s)' % (arr, n, n), 'Slice', tts))
            return
        raise Unsupported('string to []%s' % etd.get('name'))
    if fs == 'Slice' and ts == 'Str':
        etd = prog.under(ftd['elem'])
        if etd['k'] == 'basic' and etd['name'] in ('int32', 'rune'):
            hn, hs = vc.elem_heap('Int')
            f = vc.ufun('gs.fromrunes', ['Arr:Int', 'Int', 'Int'], 'Str')
            arr = vc.define('rarr', 'Arr:Int', '(select %s (s.arr %s))' % (ex.st.get(hn, hs), x.term))
            t = vc.define('fromrunes', 'Str', '(%s %s (s.off %s) (s.len %s))' % (f, arr, x.term, x.term))
            vc.assume('(= (gs.rlen %s) (s.len %s))' % (t, x.term), ex.reach)
            vc.assume_forall(ex.reach, lambda i, t=t, arr=arr, x=x.term:
                             '(=> (and (<= 0 %s) (< %s (s.len %s))) (= (gs.at %s %s) (fixrune (select %s (+ (s.off %s) %s)))))' % (i, i, x, t, i, arr, x, i))
            ex.setv(ins, V(t, 'Str', tts))
            return
        raise Unsupported('[]%s to string' % etd.get('name'))
    if fs == 'Int' and ts == 'Str':
        ex.setv(ins, V(str_fromrune(vc, '(fixrune %s)' % x.term), 'Str', tts))
        return
    if fs == ts:
        ex.vals[ins['n']] = V(x.term, ts, tts)
        return
    raise Unsupported('conversion %s -> %s' % (fts, tts))


def i2f_term(vc, x, ts):
    """integer -> float conversion: literal for constants, otherwise the (deterministic, total) conversion
    function is left uninterpreted: mixed Int/Real/FP reasoning is out of the solvers' reach"""
    import re as _re
    m = _re.match(r'^(?:(\d+)|\(- (\d+)\))$', x)
    if m:
        from .exec import fp_lit
        n = int(m.group(1)) if m.group(1) else -int(m.group(2))
        return fp_lit(float(n).hex(), 64 if ts == 'F64' else 32)
    f = vc.ufun('conv.i2f.' + ts, ['Int'], ts)
    return '(%s %s)' % (f, x)


def f2i_term(vc, x, fs, tk):
    """Go float -> integer conversion (truncation toward zero when the value fits, implementation-defined
    otherwise): a deterministic total function, left uninterpreted - the same symbol in code and specification
    (mixed FP/Real/Int reasoning is out of the solvers' reach within the quick timeout)"""
    tk = {'int': 'int64', 'uint': 'uint64', 'uintptr': 'uint64'}.get(tk, tk)
    u = vc.ufun('conv.f2i.' + fs + '.' + tk, [fs], 'Int')
    return '(%s %s)' % (u, x)


def need_fromrune(vc):
    if getattr(vc, '_fromrune', False):
        return
    vc._fromrune = True
    f = vc.ufun('gs.fromrune', ['Int'], 'Str')
    vc.quant_axioms.append('(forall ((r Int)) (! (and (= (gs.rlen (%s r)) 1) (= (gs.at (%s r) 0) r)) :pattern ((%s r))))' % (f, f, f))


def need_fromrunes(vc):
    if getattr(vc, '_fromrunes', False):
        return
    vc._fromrunes = True
    f = vc.ufun('gs.fromrunes', ['Arr:Int', 'Int', 'Int'], 'Str')
    vc.quant_axioms.append('(forall ((a (Array Int Int)) (o Int) (n Int)) (! (=> (>= n 0) (= (gs.rlen (%s a o n)) n)) :pattern ((%s a o n))))' % (f, f))
    vc.quant_axioms.append('(forall ((a (Array Int Int)) (o Int) (n Int) (i Int)) (! (=> (and (<= 0 i) (< i n)) (= (gs.at (%s a o n) i) (fixrune (select a (+ o i))))) :pattern ((gs.at (%s a o n) i))))' % (f, f))


# ---- slices ------------------------------------------------------------------------------------------

def slice_expr(ex, ins):
    vc = ex.vc
    prog = ex.prog
    x = ex.op(ins['x'])
    xts = ins['x']['t']
    xtd = prog.under(xts)
    lo = ex.val(ins['low']) if ins.get('low') else None
    hi = ex.val(ins['high']) if ins.get('high') else None
    mx = ex.val(ins['max']) if ins.get('max') else None
    line = ins.get('line', 0)
    if xtd['k'] == 'ptr' and prog.under(xtd['elem'])['k'] == 'array':
        atd = prog.under(xtd['elem'])
        n = atd['len']
        base = '(mkslice %s 0 %d %d)' % (x.term, n, n)
    elif xtd['k'] == 'slice':
        base = x.term
    elif xtd['k'] == 'basic' and x.sort == 'Str':
        return substring(ex, ins, x, lo, hi)
    else:
        raise Unsupported('slice of ' + xtd['k'])
    lo_t = lo.term if lo else '0'
    hi_t = hi.term if hi else '(s.len %s)' % base
    cap_t = mx.term if mx else '(s.cap %s)' % base
    limit = cap_t if mx or True else None
    cond = '(and (<= 0 %s) (<= %s %s) (<= %s (s.cap %s)))' % (lo_t, lo_t, hi_t, hi_t, base)
    if mx:
        cond = and_(cond, '(<= %s %s)' % (hi_t, cap_t), '(<= %s (s.cap %s))' % (cap_t, base))
    ex.oblige('bounds', 'slice bounds in range', ex.reach, cond, ['C03'], line)
    vc.assume(cond, ex.reach)
    t = '(mkslice (s.arr %s) (+ (s.off %s) %s) (- %s %s) (- %s %s))' % (base, base, lo_t, hi_t, lo_t, cap_t, lo_t)
    ex.setv(ins, V(t, 'Slice', ins['t']))


def substring(ex, ins, x, lo, hi):
    vc = ex.vc
    f = vc.ufun('gs.bytesub', ['Str', 'Int', 'Int'], 'Str')
    lo_t = lo.term if lo else '0'
    hi_t = hi.term if hi else '(gs.blen %s)' % x.term
    cond = '(and (<= 0 %s) (<= %s %s) (<= %s (gs.blen %s)))' % (lo_t, lo_t, hi_t, hi_t, x.term)
    ex.oblige('bounds', 'substring bounds in range', ex.reach, cond, ['C03'], ins.get('line', 0))
    vc.assume(cond, ex.reach)
    ex.setv(ins, V('(%s %s %s %s)' % (f, x.term, lo_t, hi_t), 'Str', ins['t']))


def make_slice(ex, ins):
    vc = ex.vc
    n = ex.val(ins['len'])
    c = ex.val(ins['cap'])
    ets = ex.prog.under(ins['t'])['elem']
    es = vc.sort_of(ets)
    ex.oblige('bounds', 'makeslice: len out of range', ex.reach, '(and (<= 0 %s) (<= %s %s))' % (n.term, n.term, c.term), ['C03'], ins.get('line', 0))
    vc.assume('(and (<= 0 %s) (<= %s %s) (<= %s %d))' % (n.term, n.term, c.term, c.term, MAXLEN), ex.reach)
    arr = new_ref(ex, ins['n'] + '$arr')
    hn, hs = vc.elem_heap(es)
    ex.st.set(hn, vc.define(hn, hs, '(store %s %s %s)' % (ex.st.get(hn, hs), arr, const_array(vc, es, vc.zero_of_sort(es)))))
    ex.setv(ins, V('(mkslice %s 0 %s %s)' % (arr, n.term, c.term), 'Slice', ins['t']))


def index_value(ex, ins):
    vc = ex.vc
    x = ex.val(ins['x'])
    i = ex.val(ins['index'])
    if x.sort == 'Str':
        # byte indexing of a string
        ex.oblige('bounds', 'string index in range', ex.reach, '(and (<= 0 %s) (< %s (gs.blen %s)))' % (i.term, i.term, x.term), ['C03'], ins.get('line', 0))
        vc.assume('(and (<= 0 %s) (< %s (gs.blen %s)))' % (i.term, i.term, x.term), ex.reach)
        f = vc.ufun('gs.byteat', ['Str', 'Int'], 'Int')
        ex.setv(ins, V('(%s %s %s)' % (f, x.term, i.term), 'Int', ins['t']))
        vc.range_assume(ex.vals[ins['n']], ex.reach)
        return
    raise Unsupported('Index on sort ' + x.sort)


# ---- maps (abstract) -----------------------------------------------------------------------------------

def lookup(ex, ins):
    vc = ex.vc
    x = ex.val(ins['x'])
    k = ex.val(ins['index'])
    xtd = ex.prog.under(ins['x']['t'])
    if x.sort == 'Str':
        return index_value(ex, ins)
    if xtd['k'] != 'map':
        raise Unsupported('lookup on ' + xtd['k'])
    ks = vc.sort_of(xtd['key'])
    vs = vc.sort_of(xtd['elem'])
    hn = 'M.%s.%s' % (san(ks), san(vs))
    hs_has = 'Arr:Map:%s>Bool' % ks
    hs_val = 'Arr:Map:%s>%s' % (ks, vs)
    vc.heap_sorts[hn + '.has'] = hs_has
    vc.heap_sorts[hn + '.val'] = hs_val
    has = '(select (select %s %s) %s)' % (ex.st.get(hn + '.has', hs_has), x.term, k.term)
    val = '(select (select %s %s) %s)' % (ex.st.get(hn + '.val', hs_val), x.term, k.term)
    val = ite(has, val, vc.zero_of_sort(vs))
    if ins.get('commaok'):
        ex.vals[ins['n']] = [V(vc.define(ex.nm(ins['n'] + '$v'), vs, val), vs, xtd['elem']), V(vc.define(ex.nm(ins['n'] + '$ok'), 'Bool', has), 'Bool', 'bool')]
    else:
        ex.setv(ins, V(val, vs, xtd['elem']))


def make_map(ex, ins):
    vc = ex.vc
    ref = new_ref(ex, ins['n'])
    xtd = ex.prog.under(ins['t'])
    ks = vc.sort_of(xtd['key'])
    vs = vc.sort_of(xtd['elem'])
    hn = 'M.%s.%s' % (san(ks), san(vs))
    hs_has = 'Arr:Map:%s>Bool' % ks
    vc.heap_sorts[hn + '.has'] = hs_has
    vc.heap_sorts[hn + '.val'] = 'Arr:Map:%s>%s' % (ks, vs)
    empty = '((as const (Array %s Bool)) false)' % vc.ssort(ks)
    ex.st.set(hn + '.has', vc.define(hn + '.has', hs_has, '(store %s %s %s)' % (ex.st.get(hn + '.has', hs_has), ref, empty)))
    ex.vals[ins['n']] = V(ref, 'Int', ins['t'])


def map_update(ex, ins):
    vc = ex.vc
    m = ex.val(ins['map'])
    k = ex.val(ins['key'])
    v = ex.val(ins['value'])
    xtd = ex.prog.under(ins['map']['t'])
    v = ex.adapt(v, xtd['elem'])
    ks = vc.sort_of(xtd['key'])
    vs = vc.sort_of(xtd['elem'])
    hn = 'M.%s.%s' % (san(ks), san(vs))
    hs_has = 'Arr:Map:%s>Bool' % ks
    hs_val = 'Arr:Map:%s>%s' % (ks, vs)
    vc.heap_sorts[hn + '.has'] = hs_has
    vc.heap_sorts[hn + '.val'] = hs_val
    if (ks, k.term) not in vc.inst_terms:
        vc.inst_terms.append((ks, k.term))
    ex.oblige('nil', 'assignment to entry in nil map', ex.reach, not_(eq(m.term, '0')), ['C03'], ins.get('line', 0))
    vc.assume(not_(eq(m.term, '0')), ex.reach)
    # frame: an assigns clause cannot name a map, so a function with one may only update maps it allocated itself
    topc = ex.top.contract
    if topc is not None and topc.assigns is not None:
        ex.oblige('frame', 'update of a map that this call did not allocate', ex.reach, '(>= %s %s)' % (m.term, ex.top.entry_state.alloc), ['C19'], ins.get('line', 0))
    ch = ex.st.get(hn + '.has', hs_has)
    cv = ex.st.get(hn + '.val', hs_val)
    ex.st.set(hn + '.has', vc.define(hn + '.has', hs_has, '(store %s %s (store (select %s %s) %s true))' % (ch, m.term, ch, m.term, k.term)))
    ex.st.set(hn + '.val', vc.define(hn + '.val', hs_val, '(store %s %s (store (select %s %s) %s %s))' % (cv, m.term, cv, m.term, k.term, v.term)))


def range_(ex, ins):
    xtd = ex.prog.under(ins['x']['t'])
    if xtd['k'] != 'map':
        raise Unsupported('range over string')
    vc = ex.vc
    m = ex.val(ins['x'])
    ks = vc.sort_of(xtd['key'])
    vs = vc.sort_of(xtd['elem'])
    hn = 'M.%s.%s' % (san(ks), san(vs))
    hs_has = 'Arr:Map:%s>Bool' % ks
    vc.heap_sorts[hn + '.has'] = hs_has
    vc.heap_sorts[hn + '.val'] = 'Arr:Map:%s>%s' % (ks, vs)
    # ghost: the set of keys this iteration has produced so far (`visited(m, k)` in loop invariants)
    gn = 'G.seen.%s' % san(ks)
    vc.heap_sorts[gn] = hs_has
    it = new_ref(ex, ins['n'] + '$it')
    empty = '((as const (Array %s Bool)) false)' % vc.ssort(ks)
    ex.st.set(gn, vc.define(gn, hs_has, '(store %s %s %s)' % (ex.st.get(gn, hs_has), it, empty)))
    vc.__dict__.setdefault('mapiters', {})[m.term] = (it, gn, hs_has)
    ex.vals[ins['n']] = ('mapiter', m, ins['x']['t'], it, ex.st.get(hn + '.has', hs_has))


def next_(ex, ins):
    """one step of a map iteration: either the end, or some entry that the map holds now (order unspecified)"""
    vc = ex.vc
    it = ex.vals.get(ins['iter']['n'])
    if ins.get('isstring') or not (isinstance(it, tuple) and it[0] == 'mapiter'):
        raise Unsupported('range iteration over a string')
    _, m, mts, itref, has0 = it
    xtd = ex.prog.under(mts)
    ks = vc.sort_of(xtd['key'])
    vs = vc.sort_of(xtd['elem'])
    hn = 'M.%s.%s' % (san(ks), san(vs))
    hs_has = 'Arr:Map:%s>Bool' % ks
    hs_val = 'Arr:Map:%s>%s' % (ks, vs)
    vc.heap_sorts[hn + '.has'] = hs_has
    vc.heap_sorts[hn + '.val'] = hs_val
    ok = vc.declare(ex.nm(ins['n'] + '$ok'), 'Bool')
    k = vc.declare(ex.nm(ins['n'] + '$k'), ks)
    v = vc.declare(ex.nm(ins['n'] + '$v'), vs)
    has = '(select (select %s %s) %s)' % (ex.st.get(hn + '.has', hs_has), m.term, k)
    val = '(select (select %s %s) %s)' % (ex.st.get(hn + '.val', hs_val), m.term, k)
    vc.assume(imp(ok, and_(not_(eq(m.term, '0')), has, eq(v, val))), ex.reach)
    # every entry is produced at most once; when the iteration ends every entry has been produced - stated only if no map of
    # this type has been updated since the range statement (an entry added or removed during the iteration may be skipped)
    gn = 'G.seen.%s' % san(ks)
    vc.heap_sorts[gn] = hs_has
    G = ex.st.get(gn, hs_has)
    seen = '(select %s %s)' % (G, itref)
    if (ks, k) not in vc.inst_terms:
        vc.inst_terms.append((ks, k))
    vc.assume(imp(ok, not_('(select %s %s)' % (seen, k))), ex.reach)
    if ex.st.get(hn + '.has', hs_has) == has0:
        vc.assume_forall(and_(ex.reach, not_(ok)), lambda j, seen=seen, m=m, has0=has0: imp('(select (select %s %s) %s)' % (has0, m.term, j), '(select %s %s)' % (seen, j)), sort=ks)
    ex.st.set(gn, vc.define(gn, hs_has, '(store %s %s (ite %s (store %s %s true) %s))' % (G, itref, ok, seen, k, seen)))
    kv, vv = V(k, ks, xtd['key']), V(v, vs, xtd['elem'])
    vc.range_assume(kv, ex.reach)
    vc.range_assume(vv, ex.reach)
    ex.vals[ins['n']] = [V(ok, 'Bool', 'bool'), kv, vv]


# ---- builtins ----------------------------------------------------------------------------------------------

def builtin(ex, ins, name):
    vc = ex.vc
    args = [ex.op(a) for a in ins['call']['args']]
    if name == 'len':
        x = args[0]
        if x.sort == 'Slice':
            t = '(s.len %s)' % x.term
        elif x.sort == 'Str':
            t = '(gs.blen %s)' % x.term
            vc.assume('(and (<= 0 %s) (<= %s %d) (<= (gs.rlen %s) %s) (<= 0 (gs.rlen %s)) (<= %s (* 4 (gs.rlen %s))))' % (t, t, MAXLEN, x.term, t, x.term, t, x.term), ex.reach)
        else:
            f = vc.ufun('map.len', ['Int'], 'Int')
            t = '(%s %s)' % (f, x.term)
            vc.assume('(>= %s 0)' % t, ex.reach)
        ex.setv(ins, V(t, 'Int', 'int'))
        return
    if name == 'cap':
        ex.setv(ins, V('(s.cap %s)' % args[0].term, 'Int', 'int'))
        return
    if name == 'append':
        return append(ex, ins, args)
    if name == 'copy':
        return copy_(ex, ins, args)
    if name == 'recover':
        rv = getattr(ex.top, 'recover_val', None)
        if rv is not None:
            # panicking: the first recover() in the deferred closure returns the panic value and stops the panic
            ex.top.recover_val = None
            ex.setv(ins, V(rv.term, 'Any', ins['t']))
        else:
            ex.setv(ins, V('a.nil', 'Any', ins['t']))
        return
    if name in ('print', 'println'):
        return
    if name in ('min', 'max'):
        a, b = args
        if a.sort != 'Int':
            raise Unsupported('min/max on ' + a.sort)
        ex.setv(ins, V('(%s %s %s)' % ('imin' if name == 'min' else 'imax', a.term, b.term), 'Int', ins['t']))
        return
    raise Unsupported('builtin ' + name)


def const_len(ex, o):
    """length of the slice operand if it is syntactically `new [k]T`[:] (variadic packing), else None"""
    if o['k'] != 'reg':
        return None
    d = ex.defs.get(o['n'])
    if d and d['op'] == 'Slice' and not d.get('low') and not d.get('high'):
        xt = ex.prog.under(d['x']['t'])
        if xt['k'] == 'ptr' and ex.prog.under(xt['elem'])['k'] == 'array':
            return ex.prog.under(xt['elem'])['len']
    return None


def append(ex, ins, args):
    """append(s, t...) modelled exactly: in place iff len(s)+len(t) <= cap(s), else a fresh backing array"""
    vc = ex.vc
    s, t = args
    ets = ex.prog.under(ins['t'])['elem']
    es = vc.sort_of(ets)
    if s.sort == 'Nil':
        s = V('(mkslice 0 0 0 0)', 'Slice', ins['t'])
    if t.sort == 'Nil':
        ex.vals[ins['n']] = V(s.term, 'Slice', ins['t'])
        return
    if t.sort == 'Str':
        raise Unsupported('append of string bytes')
    hn, hs = vc.elem_heap(es)
    E = ex.st.get(hn, hs)
    k = const_len(ex, ins['call']['args'][1])
    ls = '(s.len %s)' % s.term
    lt = '(s.len %s)' % t.term if k is None else str(k)
    n = vc.define(ex.nm(ins['n'] + '$n'), 'Int', '(+ %s %s)' % (ls, lt))
    inplace = vc.define(ex.nm(ins['n'] + '$inplace'), 'Bool', '(<= %s (s.cap %s))' % (n, s.term))
    A = '(select %s (s.arr %s))' % (E, s.term)
    T = '(select %s (s.arr %s))' % (E, t.term)
    newarr = new_ref(ex, ins['n'] + '$arr')
    newcap = vc.declare(ex.nm(ins['n'] + '$cap'), 'Int')
    vc.assume('(and (>= %s %s) (<= %s %d))' % (newcap, n, newcap, MAXLEN), ex.reach)
    if k is not None and k <= 4:
        a_in = A
        for i in range(k):
            a_in = '(store %s (+ (s.off %s) %s %d) (select %s (+ (s.off %s) %d)))' % (a_in, s.term, ls, i, T, t.term, i)
        # fresh array: prefix copied from s, then t
        a_new = vc.declare(ex.nm(ins['n'] + '$fresh'), 'Arr:' + es)
        soff = '(s.off %s)' % s.term
        vc.assume_forall(ex.reach, lambda i, a_new=a_new, A=A, ls=ls, soff=soff:
                         '(=> (and (<= 0 %s) (< %s %s)) (= (select %s %s) (select %s (+ %s %s))))' % (i, i, ls, a_new, i, A, soff, i))
        for i in range(k):
            vc.assume('(= (select %s (+ %s %d)) (select %s (+ (s.off %s) %d)))' % (a_new, ls, i, T, t.term, i), ex.reach)
    else:
        a_in = vc.declare(ex.nm(ins['n'] + '$inpl'), 'Arr:' + es)
        soff = '(s.off %s)' % s.term
        toff = '(s.off %s)' % t.term
        # relative index j (array index soff + j): the tail [ls, n) receives t, everything else is unchanged
        vc.assume_forall(ex.reach, lambda j, a_in=a_in, A=A, T=T, ls=ls, n=n, soff=soff, toff=toff:
                         '(= (select %s (+ %s %s)) (ite (and (<= %s %s) (< %s %s)) (select %s (+ %s (- %s %s))) (select %s (+ %s %s))))'
                         % (a_in, soff, j, ls, j, j, n, T, toff, j, ls, A, soff, j))
        a_new = vc.declare(ex.nm(ins['n'] + '$fresh'), 'Arr:' + es)
        vc.assume_forall(ex.reach, lambda i, a_new=a_new, A=A, T=T, ls=ls, n=n, soff=soff, toff=toff:
                         '(=> (and (<= 0 %s) (< %s %s)) (= (select %s %s) (ite (< %s %s) (select %s (+ %s %s)) (select %s (+ %s (- %s %s))))))'
                         % (i, i, n, a_new, i, i, ls, A, soff, i, T, toff, i, ls))
    # (appending nothing in place leaves the element heap as it is)
    E2 = ite(inplace, ite('(= %s %s)' % (n, ls), E, '(store %s (s.arr %s) %s)' % (E, s.term, a_in)), '(store %s %s %s)' % (E, newarr, a_new))
    ex.st.set(hn, vc.define(hn, hs, E2))
    res = ite(inplace, '(mkslice (s.arr %s) (s.off %s) %s (s.cap %s))' % (s.term, s.term, n, s.term),
              '(mkslice %s 0 %s %s)' % (newarr, n, newcap))
    # frame: an in-place append writes the backing array of s
    top = ex.top
    if top.contract is not None and top.contract.assigns is not None:
        # (appending nothing writes nothing)
        alts = [not_(inplace), '(= %s %s)' % (n, ls), '(>= (s.arr %s) %s)' % (s.term, top.entry_state.alloc)]
        for (h2, r2) in top.assign_set():
            if h2 == hn:
                alts.append('true' if r2 is None else eq('(s.arr %s)' % s.term, r2))
        ex.oblige('frame', 'in-place append writes only fresh or assignable backing arrays', ex.reach, or_(*alts), ['C19'], ins.get('line', 0))
    ex.setv(ins, V(res, 'Slice', ins['t']))


def copy_(ex, ins, args):
    vc = ex.vc
    d, s = args
    ets = ex.prog.under(ins['call']['args'][0]['t'])['elem']
    es = vc.sort_of(ets)
    hn, hs = vc.elem_heap(es)
    E = ex.st.get(hn, hs)
    n = vc.define(ex.nm(ins.get('n', 'copy') + '$n'), 'Int', '(imin (s.len %s) (s.len %s))' % (d.term, s.term))
    D = '(select %s (s.arr %s))' % (E, d.term)
    S = '(select %s (s.arr %s))' % (E, s.term)
    a2 = vc.declare(ex.nm('copy$dst'), 'Arr:' + es)
    doff, soff = '(s.off %s)' % d.term, '(s.off %s)' % s.term
    vc.assume_forall(ex.reach, lambda j, a2=a2, D=D, S=S, n=n, doff=doff, soff=soff:
                     '(= (select %s (+ %s %s)) (ite (and (<= 0 %s) (< %s %s)) (select %s (+ %s %s)) (select %s (+ %s %s))))'
                     % (a2, doff, j, j, j, n, S, soff, j, D, doff, j))
    ex.st.set(hn, vc.define(hn, hs, '(store %s (s.arr %s) %s)' % (E, d.term, a2)))
    top = ex.top
    if top.contract is not None and top.contract.assigns is not None:
        alts = ['(>= (s.arr %s) %s)' % (d.term, top.entry_state.alloc), '(= %s 0)' % n]
        for (h2, r2) in top.assign_set():
            if h2 == hn:
                alts.append('true' if r2 is None else eq('(s.arr %s)' % d.term, r2))
        ex.oblige('frame', 'copy writes only fresh or assignable backing arrays', ex.reach, or_(*alts), ['C19'], ins.get('line', 0))
    if 'n' in ins:
        ex.setv(ins, V(n, 'Int', 'int'))


# ---- trusted models of dependency functions (listed in evidence as assumptions) ---------------------------------

MODELS = {}


def model(name, modifies=(), doc=''):
    def deco(fn):
        MODELS[name] = {'fn': fn, 'modifies': list(modifies), 'doc': doc}
        return fn
    return deco


def _args(ex, ins):
    return [ex.op(a) for a in ins['call']['args']]


def pure(name, skip_recv=False, doc=''):
    """dependency function treated as a total, side-effect-free, deterministic function of its arguments
    (an uninterpreted function symbol); listed as a trusted model in every evidence file"""
    def fn(ex, ins, name=name, skip=skip_recv):
        vc = ex.vc
        args = _args(ex, ins)
        if skip:
            args = args[1:]
        rs = vc.sort_of(ins['t'])
        f = vc.ufun('ext.' + name, [a.sort for a in args], rs)
        t = '(%s %s)' % (f, ' '.join(a.term for a in args)) if args else f
        ex.setv(ins, V(t, rs, ins['t']))
        v = ex.vals[ins['n']]
        vc.range_assume(v, ex.reach)
    MODELS[name] = {'fn': fn, 'modifies': [], 'doc': doc or 'total pure function (uninterpreted)'}


CONV = 'github.com/pip-services3-gox/pip-services3-commons-gox/convert.'
for _n, _m in [('_TBooleanConverter', 'ToBoolean'), ('_TDateTimeConverter', 'ToDateTime'), ('_TDoubleConverter', 'ToDouble'),
               ('_TDurationConverter', 'ToDuration'), ('_TFloatConverter', 'ToFloat'), ('_TIntegerConverter', 'ToInteger'),
               ('_TLongConverter', 'ToLong'), ('_TStringConverter', 'ToString')]:
    pure('(*%s%s).%s' % (CONV, _n, _m), skip_recv=True)
for _n in ['math.Pow', 'math.Acos', 'math.Asin', 'math.Atan', 'math.Cos', 'math.Exp', 'math.Log', 'math.Log10', 'math.Sin', 'math.Sqrt', 'math.Tan',
           'strconv.Itoa', 'strings.ToLower', 'strings.ToUpper', 'strings.Trim', 'strings.Contains', 'time.Unix', 'time.Date',
           '(time.Time).After', '(time.Time).Before', '(time.Time).Equal', '(time.Time).Sub', '(time.Time).Unix', '(time.Time).Weekday']:
    pure(_n)


def fp_round(name, mode):
    def fn(ex, ins, mode=mode):
        x = _args(ex, ins)[0]
        ex.setv(ins, V('(fp.roundToIntegral %s %s)' % (mode, x.term), 'F64', ins['t']))
    MODELS[name] = {'fn': fn, 'modifies': [], 'doc': 'IEEE roundToIntegral ' + mode}


fp_round('math.Trunc', 'RTZ')
fp_round('math.Floor', 'RTN')
fp_round('math.Ceil', 'RTP')
fp_round('math.Round', 'RNA')


@model('math.IsNaN', doc='IEEE isNaN')
def _isnan(ex, ins):
    x = _args(ex, ins)[0]
    ex.setv(ins, V('(fp.isNaN %s)' % x.term, 'Bool', ins['t']))


@model('math.Abs', doc='IEEE abs')
def _abs(ex, ins):
    x = _args(ex, ins)[0]
    ex.setv(ins, V('(fp.abs %s)' % x.term, 'F64', ins['t']))


@model('(time.Duration).Milliseconds', doc='nanoseconds / 1e6 truncated')
def _ms(ex, ins):
    x = _args(ex, ins)[0]
    ex.setv(ins, V('(go.quo %s 1000000)' % x.term, 'Int', ins['t']))


@model('time.Now', doc='some time value (clock)')
def _now(ex, ins):
    ex.setv(ins, V(ex.vc.declare(ex.nm('now'), 'Time'), 'Time', ins['t']))


@model('math/rand.Float32', doc='some float32 in [0,1)')
def _rnd(ex, ins):
    c = ex.vc.declare(ex.nm('rnd'), 'F32')
    ex.vc.assume('(and (fp.leq ((_ to_fp 8 24) RNE 0.0) %s) (fp.lt %s ((_ to_fp 8 24) RNE 1.0)))' % (c, c), ex.reach)
    ex.setv(ins, V(c, 'F32', ins['t']))


@model('math/rand.Float64', doc='some float64 in [0,1)')
def _rnd64(ex, ins):
    c = ex.vc.declare(ex.nm('rnd64'), 'F64')
    ex.vc.assume('(and (fp.leq ((_ to_fp 11 53) RNE 0.0) %s) (fp.lt %s ((_ to_fp 11 53) RNE 1.0)))' % (c, c), ex.reach)
    ex.setv(ins, V(c, 'F64', ins['t']))


@model('github.com/pip-services3-gox/pip-services3-commons-gox/errors.NewUnsupportedError', doc='returns a fresh non-nil *ApplicationError')
def _unsupported(ex, ins):
    ref = new_ref(ex, ins['n'])
    ex.vals[ins['n']] = V(ref, 'Int', ins['t'])


# ---- strings and strings.Builder ------------------------------------------------------------------------------
# A Go string is abstracted to its sequence of decoded runes (gs.rlen, gs.runes/gs.at) plus its byte length
# (gs.blen). Every constructor gets ground defining facts at the site where it is applied.

UTF8LEN = '(ite (< %s 128) 1 (ite (< %s 2048) 2 (ite (< %s 65536) 3 4)))'


def str_app(vc, s, r):
    """s ++ [r] for a rune r that is already a scalar value (or U+FFFD)"""
    f = vc.ufun('gs.app', ['Str', 'Int'], 'Str')
    t = '(%s %s %s)' % (f, s, r)
    key = ('app', t)
    if key not in vc.str_facts:
        vc.str_facts.add(key)
        vc.assume('(and (= (gs.rlen %s) (+ (gs.rlen %s) 1)) (= (gs.runes %s) (store (gs.runes %s) (gs.rlen %s) %s)) (= (gs.blen %s) (+ (gs.blen %s) %s)) (>= (gs.rlen %s) 0))'
                  % (t, s, t, s, s, r, t, s, UTF8LEN % (r, r, r), s))
    return t


def str_concat(vc, s, t2):
    f = vc.ufun('gs.concat', ['Str', 'Str'], 'Str')
    t = '(%s %s %s)' % (f, s, t2)
    key = ('concat', t)
    if key not in vc.str_facts:
        vc.str_facts.add(key)
        vc.assume('(and (= (gs.rlen %s) (+ (gs.rlen %s) (gs.rlen %s))) (= (gs.blen %s) (+ (gs.blen %s) (gs.blen %s))) (>= (gs.rlen %s) 0) (>= (gs.rlen %s) 0))'
                  % (t, s, t2, t, s, t2, s, t2))
        vc.assume_forall('true', lambda i, t=t, s=s, t2=t2:
                         '(=> (and (<= 0 %s) (< %s (gs.rlen %s))) (= (gs.at %s %s) (ite (< %s (gs.rlen %s)) (gs.at %s %s) (gs.at %s (- %s (gs.rlen %s))))))'
                         % (i, i, t, t, i, i, s, s, i, t2, i, s))
    return t


def str_fromrune(vc, r):
    f = vc.ufun('gs.fromrune', ['Int'], 'Str')
    t = '(%s %s)' % (f, r)
    key = ('fromrune', t)
    if key not in vc.str_facts:
        vc.str_facts.add(key)
        vc.assume('(and (= (gs.rlen %s) 1) (= (gs.at %s 0) %s) (= (gs.blen %s) %s))' % (t, t, r, t, UTF8LEN % (r, r, r)))
    return t


def builder_get(ex, ref):
    return '(select %s %s)' % (ex.st.get('B.builder', 'Arr:Str'), ref)


def builder_set(ex, ref, val):
    vc = ex.vc
    vc.heap_sorts['B.builder'] = 'Arr:Str'
    # frame: an assigns clause cannot name a builder, so a function with one may only write builders it allocated itself
    topc = ex.top.contract
    if topc is not None and topc.assigns is not None:
        ex.oblige('frame', 'write to a string builder that this call did not allocate', ex.reach, '(>= %s %s)' % (ref, ex.top.entry_state.alloc), ['C19'], 0)
    ex.st.set('B.builder', vc.define('B.builder', 'Arr:Str', '(store %s %s %s)' % (ex.st.get('B.builder', 'Arr:Str'), ref, val)))


BUILDER_MOD = [('B.builder', 'Arr:Str')]


@model('(*strings.Builder).WriteRune', modifies=BUILDER_MOD, doc='appends the rune (U+FFFD if it is not a Unicode scalar value)')
def _writerune(ex, ins):
    b, r = _args(ex, ins)
    vc = ex.vc
    cur = vc.define('bld', 'Str', builder_get(ex, b.term))
    builder_set(ex, b.term, str_app(vc, cur, '(fixrune %s)' % r.term))
    if 'n' in ins:
        ex.vals[ins['n']] = [V(vc.declare(ex.nm(ins['n'] + '$n'), 'Int'), 'Int', 'int'), V('a.nil', 'Any', 'error')]


@model('(*strings.Builder).WriteString', modifies=BUILDER_MOD, doc='appends the string')
def _writestring(ex, ins):
    b, s = _args(ex, ins)
    vc = ex.vc
    cur = vc.define('bld', 'Str', builder_get(ex, b.term))
    builder_set(ex, b.term, str_concat(vc, cur, s.term))
    if 'n' in ins:
        ex.vals[ins['n']] = [V('(gs.blen %s)' % s.term, 'Int', 'int'), V('a.nil', 'Any', 'error')]


@model('(*strings.Builder).String', doc='the accumulated string')
def _bstring(ex, ins):
    b = _args(ex, ins)[0]
    ex.setv(ins, V(builder_get(ex, b.term), 'Str', ins['t']))


@model('(*strings.Builder).Len', doc='byte length of the accumulated string')
def _blen(ex, ins):
    b = _args(ex, ins)[0]
    s = ex.vc.define('bld', 'Str', builder_get(ex, b.term))
    ex.setv(ins, V('(gs.blen %s)' % s, 'Int', 'int'))
    ex.vc.assume('(and (<= (gs.rlen %s) (gs.blen %s)) (<= (gs.blen %s) (* 4 (gs.rlen %s))) (<= 0 (gs.rlen %s)))' % (s, s, s, s, s), ex.reach)


pure('strings.ReplaceAll')
pure('reflect.DeepEqual', doc='total pure function of its two arguments (never panics)')

@model('strconv.ParseInt', doc='total function of (string, base, bit size): a value and an error (two uninterpreted functions); a nil error means the value is within the bit size')
def _parseint(ex, ins):
    vc = ex.vc
    a = _args(ex, ins)
    fv = vc.ufun('ext.strconv.ParseInt.val', [x.sort for x in a], 'Int')
    fe = vc.ufun('ext.strconv.ParseInt.err', [x.sort for x in a], 'Any')
    args = ' '.join(x.term for x in a)
    val = V('(%s %s)' % (fv, args), 'Int', 'int64')
    err = V('(%s %s)' % (fe, args), 'Any', 'error')
    vc.range_assume(val, ex.reach)
    ex.vals[ins['n']] = [val, err]


pure('strings.TrimSpace')
for _n in ['strings.Replace', 'strings.TrimPrefix', 'strings.TrimSuffix', 'strings.TrimLeft', 'strings.TrimRight', 'strings.HasPrefix', 'strings.HasSuffix', 'strings.Index', 'strings.Repeat', 'strings.EqualFold', 'strings.Fields']:
    if _n not in MODELS:
        pure(_n)


@model('strconv.ParseFloat', doc='total function of (string, bit size): a value and an error (two uninterpreted functions)')
def _parsefloat(ex, ins):
    vc = ex.vc
    a = _args(ex, ins)
    fv = vc.ufun('ext.strconv.ParseFloat.val', [x.sort for x in a], 'F64')
    fe = vc.ufun('ext.strconv.ParseFloat.err', [x.sort for x in a], 'Any')
    args = ' '.join(x.term for x in a)
    ex.vals[ins['n']] = [V('(%s %s)' % (fv, args), 'F64', 'float64'), V('(%s %s)' % (fe, args), 'Any', 'error')]

