// ssaexport loads the Go module in -dir with build tag "verif", builds go/ssa for it and
// writes a JSON description of every function of the module's own packages (tests excluded)
// to -out. The JSON is the input of the Python VC generator (/verif/engine/govc).
//
// Nothing is hand-copied: the exported text is what go/ssa builds from the current working tree.
package main

import (
	"encoding/json"
	"flag"
	"fmt"
	"go/constant"
	"go/token"
	"go/types"
	"os"
	"path/filepath"
	"sort"
	"strings"

	"golang.org/x/tools/go/packages"
	"golang.org/x/tools/go/ssa"
	"golang.org/x/tools/go/ssa/ssautil"
)

type J = map[string]interface{}

var (
	typeTab = map[string]J{}
	fset    *token.FileSet
	modPath string
)

func qual(p *types.Package) string { return p.Path() }

func tstr(t types.Type) string {
	if t == nil {
		return ""
	}
	s := types.TypeString(t, qual)
	if _, ok := typeTab[s]; ok {
		return s
	}
	d := J{}
	typeTab[s] = d // break cycles
	switch x := t.(type) {
	case *types.Basic:
		d["k"] = "basic"
		d["name"] = x.Name()
		d["untyped"] = x.Info()&types.IsUntyped != 0
	case *types.Named:
		d["k"] = "named"
		d["name"] = x.Obj().Name()
		if x.Obj().Pkg() != nil {
			d["pkg"] = x.Obj().Pkg().Path()
		} else {
			d["pkg"] = ""
		}
		d["under"] = tstr(x.Underlying())
	case *types.Alias:
		d["k"] = "alias"
		d["under"] = tstr(types.Unalias(x))
	case *types.Pointer:
		d["k"] = "ptr"
		d["elem"] = tstr(x.Elem())
	case *types.Slice:
		d["k"] = "slice"
		d["elem"] = tstr(x.Elem())
	case *types.Array:
		d["k"] = "array"
		d["elem"] = tstr(x.Elem())
		d["len"] = x.Len()
	case *types.Map:
		d["k"] = "map"
		d["key"] = tstr(x.Key())
		d["elem"] = tstr(x.Elem())
	case *types.Chan:
		d["k"] = "chan"
		d["elem"] = tstr(x.Elem())
	case *types.Struct:
		d["k"] = "struct"
		fs := []J{}
		for i := 0; i < x.NumFields(); i++ {
			f := x.Field(i)
			fs = append(fs, J{"name": f.Name(), "type": tstr(f.Type()), "embedded": f.Embedded()})
		}
		d["fields"] = fs
	case *types.Interface:
		d["k"] = "iface"
		ms := []J{}
		for i := 0; i < x.NumMethods(); i++ {
			m := x.Method(i)
			ms = append(ms, J{"name": m.Name(), "sig": tstr(m.Type())})
		}
		d["methods"] = ms
	case *types.Signature:
		d["k"] = "sig"
		ps := []string{}
		for i := 0; i < x.Params().Len(); i++ {
			ps = append(ps, tstr(x.Params().At(i).Type()))
		}
		rs := []string{}
		for i := 0; i < x.Results().Len(); i++ {
			rs = append(rs, tstr(x.Results().At(i).Type()))
		}
		d["params"] = ps
		d["results"] = rs
		d["variadic"] = x.Variadic()
	case *types.Tuple:
		d["k"] = "tuple"
		es := []string{}
		for i := 0; i < x.Len(); i++ {
			es = append(es, tstr(x.At(i).Type()))
		}
		d["elems"] = es
	case *types.TypeParam:
		d["k"] = "typeparam"
	default:
		d["k"] = "other"
		d["go"] = fmt.Sprintf("%T", t)
	}
	return s
}

func fname(f *ssa.Function) string {
	return f.String()
}

func operand(v ssa.Value) J {
	if v == nil {
		return nil
	}
	switch x := v.(type) {
	case *ssa.Const:
		d := J{"k": "const", "t": tstr(x.Type())}
		if x.Value == nil {
			d["nil"] = true
		} else {
			switch x.Value.Kind() {
			case constant.Bool:
				d["v"] = constant.BoolVal(x.Value)
				d["ck"] = "bool"
			case constant.String:
				d["v"] = constant.StringVal(x.Value)
				d["ck"] = "string"
			case constant.Int:
				d["v"] = x.Value.ExactString()
				d["ck"] = "int"
			case constant.Float:
				f, _ := constant.Float64Val(x.Value)
				d["v"] = x.Value.ExactString()
				d["f64"] = fmt.Sprintf("%b", f)
				d["f64hex"] = fmt.Sprintf("%x", f)
				f32, _ := constant.Float32Val(x.Value)
				d["f32hex"] = fmt.Sprintf("%x", f32)
				d["ck"] = "float"
			default:
				d["v"] = x.Value.ExactString()
				d["ck"] = "other"
			}
		}
		return d
	case *ssa.Parameter:
		return J{"k": "param", "n": x.Name(), "t": tstr(x.Type())}
	case *ssa.FreeVar:
		return J{"k": "freevar", "n": x.Name(), "t": tstr(x.Type())}
	case *ssa.Global:
		return J{"k": "global", "n": x.String(), "t": tstr(x.Type())}
	case *ssa.Function:
		return J{"k": "func", "n": fname(x), "t": tstr(x.Type())}
	case *ssa.Builtin:
		return J{"k": "builtin", "n": x.Name(), "t": tstr(x.Type())}
	default:
		return J{"k": "reg", "n": v.Name(), "t": tstr(v.Type())}
	}
}

func line(p token.Pos) int {
	if !p.IsValid() {
		return 0
	}
	return fset.Position(p).Line
}

func callCommon(c *ssa.CallCommon) J {
	d := J{}
	args := []J{}
	for _, a := range c.Args {
		args = append(args, operand(a))
	}
	d["args"] = args
	if c.IsInvoke() {
		d["invoke"] = true
		d["recv"] = operand(c.Value)
		d["method"] = c.Method.Name()
		d["iface"] = tstr(c.Value.Type())
		d["sig"] = tstr(c.Method.Type())
	} else {
		d["invoke"] = false
		d["fn"] = operand(c.Value)
		if sc := c.StaticCallee(); sc != nil {
			d["static"] = fname(sc)
		}
	}
	return d
}

func instr(in ssa.Instruction) J {
	d := J{"line": line(in.Pos())}
	if v, ok := in.(ssa.Value); ok {
		d["n"] = v.Name()
		d["t"] = tstr(v.Type())
	}
	switch x := in.(type) {
	case *ssa.Alloc:
		d["op"] = "Alloc"
		d["heap"] = x.Heap
		d["comment"] = x.Comment
		d["elem"] = tstr(x.Type().(*types.Pointer).Elem())
	case *ssa.BinOp:
		d["op"] = "BinOp"
		d["bop"] = x.Op.String()
		d["x"] = operand(x.X)
		d["y"] = operand(x.Y)
	case *ssa.Call:
		d["op"] = "Call"
		d["call"] = callCommon(&x.Call)
	case *ssa.ChangeInterface:
		d["op"] = "ChangeInterface"
		d["x"] = operand(x.X)
	case *ssa.ChangeType:
		d["op"] = "ChangeType"
		d["x"] = operand(x.X)
	case *ssa.Convert:
		d["op"] = "Convert"
		d["x"] = operand(x.X)
	case *ssa.MultiConvert:
		d["op"] = "MultiConvert"
		d["x"] = operand(x.X)
	case *ssa.DebugRef:
		d["op"] = "DebugRef"
		d["x"] = operand(x.X)
		d["isaddr"] = x.IsAddr
		if obj := x.Object(); obj != nil {
			d["name"] = obj.Name()
			d["declline"] = line(obj.Pos())
		}
	case *ssa.Defer:
		d["op"] = "Defer"
		d["call"] = callCommon(&x.Call)
	case *ssa.Extract:
		d["op"] = "Extract"
		d["x"] = operand(x.Tuple)
		d["index"] = x.Index
	case *ssa.Field:
		d["op"] = "Field"
		d["x"] = operand(x.X)
		d["field"] = x.Field
		st := x.X.Type().Underlying().(*types.Struct)
		d["fname"] = st.Field(x.Field).Name()
		d["stype"] = tstr(x.X.Type())
	case *ssa.FieldAddr:
		d["op"] = "FieldAddr"
		d["x"] = operand(x.X)
		d["field"] = x.Field
		pt := x.X.Type().Underlying().(*types.Pointer).Elem()
		st := pt.Underlying().(*types.Struct)
		d["fname"] = st.Field(x.Field).Name()
		d["stype"] = tstr(pt)
	case *ssa.Go:
		d["op"] = "Go"
		d["call"] = callCommon(&x.Call)
	case *ssa.If:
		d["op"] = "If"
		d["cond"] = operand(x.Cond)
	case *ssa.Index:
		d["op"] = "Index"
		d["x"] = operand(x.X)
		d["index"] = operand(x.Index)
	case *ssa.IndexAddr:
		d["op"] = "IndexAddr"
		d["x"] = operand(x.X)
		d["index"] = operand(x.Index)
	case *ssa.Jump:
		d["op"] = "Jump"
	case *ssa.Lookup:
		d["op"] = "Lookup"
		d["x"] = operand(x.X)
		d["index"] = operand(x.Index)
		d["commaok"] = x.CommaOk
	case *ssa.MakeChan:
		d["op"] = "MakeChan"
	case *ssa.MakeClosure:
		d["op"] = "MakeClosure"
		d["fn"] = operand(x.Fn)
		bs := []J{}
		for _, b := range x.Bindings {
			bs = append(bs, operand(b))
		}
		d["bindings"] = bs
	case *ssa.MakeInterface:
		d["op"] = "MakeInterface"
		d["x"] = operand(x.X)
	case *ssa.MakeMap:
		d["op"] = "MakeMap"
	case *ssa.MakeSlice:
		d["op"] = "MakeSlice"
		d["len"] = operand(x.Len)
		d["cap"] = operand(x.Cap)
	case *ssa.MapUpdate:
		d["op"] = "MapUpdate"
		d["map"] = operand(x.Map)
		d["key"] = operand(x.Key)
		d["value"] = operand(x.Value)
	case *ssa.Next:
		d["op"] = "Next"
		d["iter"] = operand(x.Iter)
		d["isstring"] = x.IsString
	case *ssa.Panic:
		d["op"] = "Panic"
		d["x"] = operand(x.X)
	case *ssa.Phi:
		d["op"] = "Phi"
		d["comment"] = x.Comment
		es := []J{}
		for _, e := range x.Edges {
			es = append(es, operand(e))
		}
		d["edges"] = es
	case *ssa.Range:
		d["op"] = "Range"
		d["x"] = operand(x.X)
	case *ssa.Return:
		d["op"] = "Return"
		rs := []J{}
		for _, r := range x.Results {
			rs = append(rs, operand(r))
		}
		d["results"] = rs
	case *ssa.RunDefers:
		d["op"] = "RunDefers"
	case *ssa.Select:
		d["op"] = "Select"
	case *ssa.Send:
		d["op"] = "Send"
	case *ssa.Slice:
		d["op"] = "Slice"
		d["x"] = operand(x.X)
		d["low"] = operand(x.Low)
		d["high"] = operand(x.High)
		d["max"] = operand(x.Max)
	case *ssa.SliceToArrayPointer:
		d["op"] = "SliceToArrayPointer"
		d["x"] = operand(x.X)
	case *ssa.Store:
		d["op"] = "Store"
		d["addr"] = operand(x.Addr)
		d["val"] = operand(x.Val)
	case *ssa.TypeAssert:
		d["op"] = "TypeAssert"
		d["x"] = operand(x.X)
		d["asserted"] = tstr(x.AssertedType)
		d["commaok"] = x.CommaOk
	case *ssa.UnOp:
		d["op"] = "UnOp"
		d["uop"] = x.Op.String()
		d["x"] = operand(x.X)
		d["commaok"] = x.CommaOk
	default:
		d["op"] = fmt.Sprintf("%T", in)
	}
	return d
}

func function(f *ssa.Function) J {
	d := J{"name": fname(f), "short": f.Name(), "synthetic": f.Synthetic, "line": line(f.Pos())}
	if f.Pkg != nil {
		d["pkg"] = f.Pkg.Pkg.Path()
	}
	if f.Pos().IsValid() {
		d["file"] = fset.Position(f.Pos()).Filename
	}
	if f.Parent() != nil {
		d["parent"] = fname(f.Parent())
	}
	d["sig"] = tstr(f.Signature)
	ps := []J{}
	for _, p := range f.Params {
		ps = append(ps, J{"n": p.Name(), "t": tstr(p.Type())})
	}
	d["params"] = ps
	fv := []J{}
	for _, p := range f.FreeVars {
		fv = append(fv, J{"n": p.Name(), "t": tstr(p.Type())})
	}
	d["freevars"] = fv
	rs := []string{}
	rn := []string{}
	res := f.Signature.Results()
	for i := 0; i < res.Len(); i++ {
		rs = append(rs, tstr(res.At(i).Type()))
		rn = append(rn, res.At(i).Name())
	}
	d["results"] = rs
	d["resultnames"] = rn
	if f.Signature.Recv() != nil {
		d["recv"] = tstr(f.Signature.Recv().Type())
	}
	bs := []J{}
	for _, b := range f.Blocks {
		bd := J{"idx": b.Index, "comment": b.Comment}
		preds := []int{}
		for _, p := range b.Preds {
			preds = append(preds, p.Index)
		}
		succs := []int{}
		for _, s := range b.Succs {
			succs = append(succs, s.Index)
		}
		bd["preds"] = preds
		bd["succs"] = succs
		if idom := b.Idom(); idom != nil {
			bd["idom"] = idom.Index
		} else {
			bd["idom"] = -1
		}
		ins := []J{}
		for _, in := range b.Instrs {
			if dr, ok := in.(*ssa.DebugRef); ok && dr.Object() == nil {
				continue
			}
			ins = append(ins, instr(in))
		}
		bd["instrs"] = ins
		bs = append(bs, bd)
	}
	d["blocks"] = bs
	if f.Recover != nil {
		d["recover"] = f.Recover.Index
	} else {
		d["recover"] = -1
	}
	return d
}

func main() {
	dir := flag.String("dir", "/repo", "module directory")
	out := flag.String("out", "ssa.json", "output file")
	modfile := flag.String("modfile", "", "private go.mod (keeps the module's go.sum untouched)")
	tags := flag.String("tags", "verif", "build tags")
	overlay := flag.String("overlay", "", "overlay json passed to go list")
	flag.Parse()

	bf := []string{"-tags=" + *tags}
	if *modfile != "" {
		bf = append(bf, "-modfile="+*modfile)
	}
	if *overlay != "" {
		bf = append(bf, "-overlay="+*overlay)
	}
	cfg := &packages.Config{Mode: packages.LoadAllSyntax | packages.NeedModule, Dir: *dir, BuildFlags: bf, Tests: false}
	pkgs, err := packages.Load(cfg, "./...")
	if err != nil {
		fmt.Fprintln(os.Stderr, "load:", err)
		os.Exit(2)
	}
	nerr := 0
	packages.Visit(pkgs, nil, func(p *packages.Package) {
		for _, e := range p.Errors {
			fmt.Fprintln(os.Stderr, "pkg error:", e)
			nerr++
		}
	})
	if nerr > 0 {
		os.Exit(2)
	}
	var own []*packages.Package
	for _, p := range pkgs {
		if p.Module != nil && modPath == "" {
			modPath = p.Module.Path
		}
	}
	for _, p := range pkgs {
		rel := strings.TrimPrefix(p.PkgPath, modPath)
		if strings.HasPrefix(rel, "/test") {
			continue
		}
		own = append(own, p)
	}
	fset = pkgs[0].Fset
	prog, spkgs := ssautil.AllPackages(pkgs, ssa.GlobalDebug)
	prog.Build()

	ownSet := map[*ssa.Package]bool{}
	for i, p := range pkgs {
		for _, o := range own {
			if o == p && spkgs[i] != nil {
				ownSet[spkgs[i]] = true
			}
		}
	}
	funcs := J{}
	all := ssautil.AllFunctions(prog)
	for f := range all {
		inOwn := false
		if f.Pkg != nil && ownSet[f.Pkg] {
			inOwn = true
		}
		if f.Pkg == nil {
			// synthetic wrappers/bounds: include when their object lives in an own package
			if o := f.Object(); o != nil && o.Pkg() != nil && strings.HasPrefix(o.Pkg().Path(), modPath) && !strings.HasPrefix(strings.TrimPrefix(o.Pkg().Path(), modPath), "/test") {
				inOwn = true
			}
		}
		if !inOwn {
			continue
		}
		funcs[fname(f)] = function(f)
	}
	// named types of own packages: struct layouts and method sets (T and *T)
	named := J{}
	globals := J{}
	consts := J{}
	pkgpaths := []string{}
	for sp := range ownSet {
		pkgpaths = append(pkgpaths, sp.Pkg.Path())
	}
	sort.Strings(pkgpaths)
	for sp := range ownSet {
		names := []string{}
		for n := range sp.Members {
			names = append(names, n)
		}
		sort.Strings(names)
		for _, n := range names {
			switch m := sp.Members[n].(type) {
			case *ssa.Type:
				t := m.Type()
				d := J{"type": tstr(t), "under": tstr(t.Underlying())}
				for _, tt := range []types.Type{t, types.NewPointer(t)} {
					ms := J{}
					mset := prog.MethodSets.MethodSet(tt)
					for i := 0; i < mset.Len(); i++ {
						sel := mset.At(i)
						fn := prog.MethodValue(sel)
						if fn != nil {
							ms[sel.Obj().Name()] = J{"fn": fname(fn), "sig": tstr(sel.Type())}
							if _, ok := funcs[fname(fn)]; !ok {
								funcs[fname(fn)] = function(fn)
							}
						}
					}
					d["methods:"+tstr(tt)] = ms
				}
				named[tstr(t)] = d
			case *ssa.NamedConst:
				consts[sp.Pkg.Path()+"."+n] = operand(m.Value)
			case *ssa.Global:
				globals[m.String()] = J{"t": tstr(m.Type()), "elem": tstr(m.Type().(*types.Pointer).Elem())}
			}
		}
	}
	// contract files (comment-only, build tag verif)
	contracts := []J{}
	for _, p := range own {
		for _, gf := range p.GoFiles {
			if filepath.Base(gf) == "contracts_verif.go" {
				b, _ := os.ReadFile(gf)
				contracts = append(contracts, J{"pkg": p.PkgPath, "file": gf, "text": string(b)})
			}
		}
		for _, gf := range p.IgnoredFiles {
			if filepath.Base(gf) == "contracts_verif.go" {
				b, _ := os.ReadFile(gf)
				contracts = append(contracts, J{"pkg": p.PkgPath, "file": gf, "text": string(b)})
			}
		}
	}
	res := J{"module": modPath, "types": typeTab, "funcs": funcs, "named": named, "globals": globals, "contracts": contracts, "consts": consts, "pkgs": pkgpaths}
	b, err := json.Marshal(res)
	if err != nil {
		panic(err)
	}
	if err := os.WriteFile(*out, b, 0o644); err != nil {
		panic(err)
	}
	fmt.Fprintf(os.Stderr, "ssaexport: %d functions, %d types\n", len(funcs), len(typeTab))
}
