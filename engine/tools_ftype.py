"""debug: verify calculators against the functype contract"""
import sys
from govc import driver
wd=driver.Workdir()
prog,cs=driver.load('/repo',wd.path)
fts=[t for t in cs.functypes][0]
names=sys.argv[1:] or [n.rsplit('.',1)[1] for n in prog.functype_values(fts)]
for name in names:
    fn=[n for n in prog.funcs if n.endswith('functions.'+name)][0]
    try:
        vc=driver.gen_functype_impl(prog,cs,fn,fts)
    except Exception as e:
        print(name,'ERR',e); continue
    res=driver.discharge(vc,vc.obls,wd.path,timeout=10)
    bad=[(o.name.split('#')[1][:130],res[o.name]['status']) for o in vc.obls if res[o.name]['status']!=o.expect]
    print(name,len(vc.obls),'failed:',len(bad))
    for b in bad[:10]: print('     ',b)
wd.cleanup()
