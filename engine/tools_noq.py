import sys,subprocess,time
s=open(sys.argv[1]).read()
out=[];i=0
while True:
    j=s.find('(forall',i)
    if j<0: out.append(s[i:]);break
    out.append(s[i:j]); d=0;k=j
    while True:
        if s[k]=='(':d+=1
        elif s[k]==')':
            d-=1
            if d==0:break
        k+=1
    out.append('true'); i=k+1
extra=' '.join(sys.argv[2:])
txt=''.join(out)
if extra: txt+='(get-value (%s))\n'%extra
open('/tmp/vw/noq.smt2','w').write(txt)
t=time.time();print(subprocess.run(['z3-new','-T:30','/tmp/vw/noq.smt2'],capture_output=True,text=True).stdout, time.time()-t)
