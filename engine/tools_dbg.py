"""debug helper: dump the query of one obligation, solve, optionally evaluate terms in the model
usage: python3 tools_dbg.py <func-suffix> <obligation-substring> [term ...]"""
import sys, subprocess, re
from govc import driver
fnpat, opat = sys.argv[1], sys.argv[2]
terms = sys.argv[3:]
wd = driver.Workdir()
prog, cs = driver.load('/repo', wd.path)
fn = [n for n in prog.funcs if n.endswith(fnpat)][0]
vc = driver.gen(prog, cs, fn)
os_ = [o for o in vc.obls if opat in o.name]
o = os_[0]
print('obligation:', o.name)
print('goal:', o.goal[:3000])
import os
q = vc.query(o, 1, noq=bool(os.environ.get('NOQ')))
if terms:
    q = q.replace('(get-model)', '')
    q = q.replace('(check-sat)', '(check-sat)\n(get-value (%s))' % ' '.join(terms))
open('/tmp/q.smt2', 'w').write(q)
r = subprocess.run(['z3-new', '-T:30', '/tmp/q.smt2'], capture_output=True, text=True)
print(r.stdout[:6000])
wd.cleanup()
