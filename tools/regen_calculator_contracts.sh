#!/bin/sh
# re-generate /repo/calculator/contracts_verif.go and the IVariantOperations interface contracts at the
# end of /repo/variants/contracts_verif.go from /verif/tools/gen_calculator_contracts.py
set -e
mkdir -p /tmp/vw
python3 /verif/tools/gen_calculator_contracts.py
python3 - <<'PY'
open('/repo/calculator/contracts_verif.go', 'w').write(open('/tmp/vw/calc_contracts.txt').read())
p = '/repo/variants/contracts_verif.go'
s = open(p).read()
mark = '\n// ---------------------------------------------------------------------------------------------\n// What the calculator assumes of a variant operations manager'
a = s.index(mark)
s = s[:a] + open('/tmp/vw/iface_ops.txt').read()
open(p, 'w').write(s)
PY
rm -f /tmp/vw/calc_contracts.txt /tmp/vw/iface_ops.txt
