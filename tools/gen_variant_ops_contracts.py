#!/usr/bin/env python3
"""Generates the contract text for the 21 operators of variants.AbstractVariantOperations (C06) from a table
written from the property statement: per operator, per type of the first operand, the result type and the
host-arithmetic formula over the first payload (a) and the converted second payload (b).
Output replaces the section between the GENERATED markers of /repo/variants/contracts_verif.go."""
import re, sys

PAY = {'Integer': 'int', 'Long': 'int64', 'Float': 'float32', 'Double': 'float64', 'String': 'string', 'Boolean': 'bool',
       'TimeSpan': 'time.Duration', 'DateTime': 'time.Time'}
WRAP = {'Integer': 'wrap64(%s)', 'Long': 'wrap64(%s)', 'TimeSpan': 'wrap64(%s)'}


def a(t):
    return 'value1.value.(%s)' % PAY[t]


def b(t, conv_to=None):
    conv_to = conv_to or t
    return 'convVal(value2.typ, value2.value, %s).(%s)' % (conv_to, PAY[conv_to])


def eqv(rt, formula):
    """result payload equals formula (floats through box to keep the static type)"""
    if rt in ('Float', 'Double'):
        return 'result.value == box(%s)' % formula
    return 'result.value.(%s) == %s' % (PAY[rt], formula)


ARITH = {
    'Add': {'Integer': '+', 'Long': '+', 'Float': '+', 'Double': '+', 'TimeSpan': '+', 'String': '+'},
    'Sub': {'Integer': '-', 'Long': '-', 'Float': '-', 'Double': '-', 'TimeSpan': '-'},
    'Mul': {'Integer': '*', 'Long': '*', 'Float': '*', 'Double': '*'},
}
CMP = {'Equal': '==', 'NotEqual': '!=', 'More': '>', 'Less': '<', 'MoreEqual': '>=', 'LessEqual': '<='}
CMP_TYPES = ['Integer', 'Long', 'Float', 'Double', 'String', 'TimeSpan']

out = []
w = out.append


def header(name, unary=False):
    w('//@ func (c *AbstractVariantOperations) %s' % name)
    if unary:
        w('//@   requires c != nil && vinv(value)')
    else:
        w('//@   requires c != nil && c.Overrides != nil && vinv(value1) && vinv(value2)')
    w('//@   ensures[C06,C03] (result != nil) != (err != nil)')
    w('//@   ensures[C06] err == nil ==> vinv(result)')
    w('//@   assigns nothing')
    w('//@   nopanic')


def nullrule(name):
    w('//@   ensures[C06] value1.typ == Null || value2.typ == Null ==> err == nil && result.typ == Null')


def unsupported(types):
    cond = ' && '.join('value1.typ != %s' % t for t in ['Null'] + types)
    w('//@   ensures[C06] value2.typ != Null && %s ==> err != nil' % cond)


def succeeds(t, t2=None, extra=''):
    """an operand pair of the supported type (no conversion needed) is never rejected"""
    w('//@   ensures[C06] value1.typ == %s && value2.typ == %s%s ==> err == nil' % (t, t2 or t, extra))


def cell(t, rt, formula, extra=''):
    w('//@   ensures[C06] value1.typ == %s && value2.typ != Null && err == nil%s ==> result.typ == %s && fresh(result) && %s'
      % (t, extra, rt, eqv(rt, formula)))


for name, tab in ARITH.items():
    header(name)
    nullrule(name)
    for t, op in tab.items():
        f = '%s %s %s' % (a(t), op, b(t))
        f = WRAP.get(t, '%s') % f
        cell(t, t, f)
        succeeds(t)
    if name == 'Sub':
        w('//@   ensures[C06] value1.typ == DateTime && value2.typ != Null && err == nil ==> result.typ == TimeSpan && fresh(result) && '
          'result.value.(time.Duration) == ext("(time.Time).Sub", "time.Duration", value1.value.(time.Time), %s)' % b('DateTime'))
        unsupported(list(tab) + ['DateTime'])
    else:
        unsupported(list(tab))
    w('//')

# Div, Mod: an undefined operation (division by zero) is an error, not a crash
for name, op, types in (('Div', '/', ['Integer', 'Long', 'Float', 'Double']), ('Mod', '%', ['Integer', 'Long'])):
    header(name)
    nullrule(name)
    for t in types:
        if t in ('Integer', 'Long'):
            w('//@   ensures[C06,C03] value1.typ == %s && value2.typ != Null && %s == 0 ==> err != nil' % (t, b(t)))
            f = '%s %s %s' % (a(t), op, b(t))
            if op == '/':
                f = 'wrap64(%s)' % f
            cell(t, t, f)
            succeeds(t, extra=' && value2.value.(%s) != 0' % PAY[t])
        else:
            cell(t, t, '%s %s %s' % (a(t), op, b(t)))
            succeeds(t)
    unsupported(types)
    w('//')

# Pow: true exponentiation for all numeric types, computed on doubles
header('Pow')
nullrule('Pow')
for t in ['Integer', 'Long', 'Float', 'Double']:
    w('//@   ensures[C06] value1.typ == %s && value2.typ != Null && err == nil ==> result.typ == Double && fresh(result) && '
      'result.value == box(ext("math.Pow", "float64", convVal(%s, value1.value, Double).(float64), convVal(value2.typ, value2.value, Double).(float64)))' % (t, t))
for t in ['Integer', 'Long', 'Float', 'Double']:
    for t2 in ['Integer', 'Long', 'Float', 'Double']:
        if t2 == 'Double' or (t2, 'Double') in [('Integer', 'Double'), ('Long', 'Double'), ('Float', 'Double')]:
            succeeds(t, t2)
unsupported(['Integer', 'Long', 'Float', 'Double'])
w('//')

# And, Or, Xor: bitwise on integers (uninterpreted bit operations of the host), logical on booleans
for name, bop, lop in (('And', 'and', '%s && %s'), ('Or', 'or', '%s || %s'), ('Xor', 'xor', '(%s && !%s) || (!%s && %s)')):
    header(name)
    nullrule(name)
    for t in ['Integer', 'Long']:
        cell(t, t, 'ext("go.%s", "%s", %s, %s)' % (bop, PAY[t], a(t), b(t)))
    if name == 'Xor':
        cell('Boolean', 'Boolean', '((%s && !%s) || (!%s && %s))' % (a('Boolean'), b('Boolean'), a('Boolean'), b('Boolean')))
    else:
        cell('Boolean', 'Boolean', '(' + lop % (a('Boolean'), b('Boolean')) + ')')
    for t in ['Integer', 'Long', 'Boolean']:
        succeeds(t)
    unsupported(['Integer', 'Long', 'Boolean'])
    w('//')

# shifts: the count is converted to Integer; a negative count is an error, not a crash
for name, sop in (('Lsh', 'shl'), ('Rsh', 'shr')):
    header(name)
    nullrule(name)
    for t in ['Integer', 'Long']:
        w('//@   ensures[C06,C03] value1.typ == %s && value2.typ != Null && %s < 0 ==> err != nil' % (t, b(t, 'Integer')))
        cell(t, t, 'ext("go.%s", "%s", %s, %s)' % (sop, PAY[t], a(t), b(t, 'Integer')))
        succeeds(t, 'Integer', ' && value2.value.(int) >= 0')
    unsupported(['Integer', 'Long'])
    w('//')

# unary
header('Not', unary=True)
w('//@   ensures[C06] value.typ == Null ==> err == nil && result.typ == Boolean && result.value.(bool) == true')
w('//@   ensures[C06] value.typ == Integer ==> err == nil && result.typ == Integer && fresh(result) && result.value.(int) == ext("go.not", "int", value.value.(int))')
w('//@   ensures[C06] value.typ == Long ==> err == nil && result.typ == Long && fresh(result) && result.value.(int64) == ext("go.not", "int64", value.value.(int64))')
w('//@   ensures[C06] value.typ == Boolean ==> err == nil && result.typ == Boolean && fresh(result) && result.value.(bool) == !value.value.(bool)')
w('//@   ensures[C06] value.typ != Null && value.typ != Integer && value.typ != Long && value.typ != Boolean ==> err != nil')
w('//')
header('Negative', unary=True)
w('//@   ensures[C06] value.typ == Null ==> err == nil && result.typ == Null')
w('//@   ensures[C06] value.typ == Integer ==> err == nil && result.typ == Integer && fresh(result) && result.value.(int) == wrap64(0 - value.value.(int))')
w('//@   ensures[C06] value.typ == Long ==> err == nil && result.typ == Long && fresh(result) && result.value.(int64) == wrap64(0 - value.value.(int64))')
w('//@   ensures[C06] value.typ == Float ==> err == nil && result.typ == Float && fresh(result) && result.value == box(-value.value.(float32))')
w('//@   ensures[C06] value.typ == Double ==> err == nil && result.typ == Double && fresh(result) && result.value == box(-value.value.(float64))')
w('//@   ensures[C06] value.typ != Null && value.typ != Integer && value.typ != Long && value.typ != Float && value.typ != Double ==> err != nil')
w('//')

# comparisons
for name, op in CMP.items():
    header(name)
    if name == 'Equal':
        w('//@   ensures[C06] value1.typ == Null && value2.typ == Null ==> err == nil && result.typ == Boolean && result.value.(bool) == true')
        w('//@   ensures[C06] (value1.typ == Null) != (value2.typ == Null) ==> err == nil && result.typ == Boolean && result.value.(bool) == false')
    elif name == 'NotEqual':
        w('//@   ensures[C06] value1.typ == Null && value2.typ == Null ==> err == nil && result.typ == Boolean && result.value.(bool) == false')
        w('//@   ensures[C06] (value1.typ == Null) != (value2.typ == Null) ==> err == nil && result.typ == Boolean && result.value.(bool) == true')
    else:
        nullrule(name)
    types = list(CMP_TYPES)
    for t in types:
        cell(t, 'Boolean', '(%s %s %s)' % (a(t), op, b(t)))
        succeeds(t)
    if name in ('Equal', 'NotEqual'):
        cell('Boolean', 'Boolean', '(%s %s %s)' % (a('Boolean'), op, b('Boolean')))
        types.append('Boolean')
        teq = 'ext("(time.Time).Equal", "bool", %s, %s)' % (a('DateTime'), b('DateTime'))
        cell('DateTime', 'Boolean', teq if name == 'Equal' else '!' + teq)
        types.append('DateTime')
        types.append('Object')
    else:
        aft = 'ext("(time.Time).After", "bool", %s, %s)' % (a('DateTime'), b('DateTime'))
        bef = 'ext("(time.Time).Before", "bool", %s, %s)' % (a('DateTime'), b('DateTime'))
        teq = 'ext("(time.Time).Equal", "bool", %s, %s)' % (a('DateTime'), b('DateTime'))
        f = {'More': aft, 'Less': bef, 'MoreEqual': '(%s || %s)' % (aft, teq), 'LessEqual': '(%s || %s)' % (bef, teq)}[name]
        cell('DateTime', 'Boolean', f)
        types.append('DateTime')
    unsupported(types)
    w('//')

print('\n'.join(out))
