#!/usr/bin/env python3
"""Generates the contracts of the built-in function calculators (calculator/functions/DefaultFunctionCollection.go)
between the markers in /repo/calculator/functions/contracts_verif.go.

Every calculator is also checked against the functype contract of FunctionCalculator (result xor error, valid
result, assigns nothing). Its own contract adds: the arity rule (a wrong argument count is an error), the fixed
result type, and call-site clauses that pin which argument is converted to which type and which library function is
applied to the converted value ("per IEEE double arithmetic on the converted argument")."""
PRE = 'variantOperations != nil && (forall i int :: 0 <= i && i < len(parameters) ==> vinv(parameters[i]))'
out = []


def emit(name, arity, rtype=None, extra=(), doc=None):
    if doc:
        out.append('// ' + doc)
    out.append('//@ func %s' % name)
    out.append('//@   requires ' + PRE)
    out.append('//@   ensures[C08,C03] (result != nil) != (err != nil)')
    out.append('//@   ensures[C08] err == nil ==> vinv(result)')
    out.append('//@   ensures[C08] !(%s) ==> err != nil' % arity)
    if rtype:
        out.append('//@   ensures[C08] err == nil ==> fresh(result) && result.typ == variants.%s' % rtype)
    for e in extra:
        out.append('//@   ' + e)
    out.append('//@   assigns nothing')
    if 'nopanic' not in extra:
        out.append('//@   maypanic')
    out.append('//')


# one converted double argument, one library function, a Double result
for fn, lib in [('acos', 'ext("math.Acos", "float64", X)'), ('asin', 'ext("math.Asin", "float64", X)'), ('atan', 'ext("math.Atan", "float64", X)'),
                ('exp', 'ext("math.Exp", "float64", X)'), ('log', 'ext("math.Log", "float64", X)'), ('log10', 'ext("math.Log10", "float64", X)'),
                ('ceil', 'fceil(X)'), ('floor', 'ffloor(X)'), ('round', 'fround(X)'),
                ('cos', 'ext("math.Cos", "float64", X)'), ('sin', 'ext("math.Sin", "float64", X)'), ('tan', 'ext("math.Tan", "float64", X)'),
                ('sqrt', 'ext("math.Sqrt", "float64", X)')]:
    emit(fn + 'FunctionCalculator', 'len(parameters) == 1', 'Double',
         ['callsite[C08] Convert requires value == parameters[0] && newType == variants.Double',
          'callsite[C08] VariantFromDouble requires box(arg0) == box(' + lib.replace('X', 'caller_value.value.(float64)') + ')'],
         doc='%s of the argument converted to Double' % fn)

emit('truncFunctionCalculator', 'len(parameters) == 1', 'Long',
     ['callsite[C08] Convert requires value == parameters[0] && newType == variants.Double',
      'callsite[C08] Trunc requires box(arg0) == caller_value.value',
      # "never a silently substituted value": the integer part handed on is a number within the range of a long
      'callsite[C08] VariantFromLong requires !isnan(caller_truncated) && caller_truncated >= f64(-9223372036854775808.0) && caller_truncated < f64(9223372036854775808.0)'],
     doc='integral part of the argument converted to Double, as a Long')

# constants and clocks
emit('ticksFunctionCalculator', 'len(parameters) == 0', 'Long')
emit('nowFunctionCalculator', 'len(parameters) == 0', 'DateTime')
emit('eFunctionCalculator', 'len(parameters) == 0', 'Float')
emit('piFunctionCalculator', 'len(parameters) == 0', 'Float')
emit('rndFunctionCalculator', 'len(parameters) == 0', 'Float',
     ['callsite[C08] VariantFromFloat requires f32(0.0) <= arg0 && arg0 < f32(1.0)'], doc='"Rnd in [0,1)"')
emit('nullFunctionCalculator', 'len(parameters) == 0', 'Null')
emit('emptyFunctionCalculator', 'len(parameters) == 1', 'Boolean',
     ['ensures[C08] err == nil ==> result.value.(bool) == (parameters[0].value == nil)'])
emit('arrayFunctionCalculator', 'true', 'Array',
     ['ensures[C08] err == nil && len(arrOf(result)) == len(parameters)',
      'ensures[C08] forall i int :: 0 <= i && i < len(parameters) ==> arrOf(result)[i] == parameters[i]'],
     doc='"Array construction": the arguments in order, in an array of its own')

emit('timeSpanFunctionCalculator', 'len(parameters) == 1 || len(parameters) == 3 || len(parameters) == 4 || len(parameters) == 5', 'TimeSpan',
     ['callsite[C08] Convert requires newType == variants.Long && (exists k int :: 0 <= k && k < len(parameters) && value == parameters[k])',
      'callsite[C08] Convert requires len(parameters) == 1 ==> value == parameters[0]'],
     doc='milliseconds, or days/hours/minutes[/seconds[/milliseconds]]')
emit('dateFunctionCalculator', '1 <= len(parameters) && len(parameters) <= 7', 'DateTime',
     ['callsite[C08] Convert requires (exists k int :: 0 <= k && k < len(parameters) && value == parameters[k]) &&',
      '    newType == (len(parameters) == 1 ? variants.Long : variants.Integer)'],
     doc='seconds since the epoch, or year[/month[/day[/hour[/minute[/second[/nanosecond]]]]]]')
emit('dayOfWeekFunctionCalculator', 'len(parameters) == 1', 'Integer',
     ['callsite[C08] Convert requires value == parameters[0] && newType == variants.DateTime'])

# selection
emit('ifFunctionCalculator', 'len(parameters) == 3', None,
     ['ensures[C08] err == nil ==> result == parameters[1] || result == parameters[2]',
      'callsite[C08] Convert requires value == parameters[0] && newType == variants.Boolean'],
     doc='"If selection": the second argument when the first converts to true, else the third')
emit('chooseFunctionCalculator', 'len(parameters) >= 3', None,
     ['ensures[C08] err == nil ==> (exists k int :: 1 <= k && k < len(parameters) && result == parameters[k])',
      'callsite[C08] Convert requires value == parameters[0] && newType == variants.Integer',
      'nopanic'],
     doc='"Choose selection": the argument whose 1-based position the first argument names; an inapplicable position is an error')
emit('containsFunctionCalculator', 'len(parameters) == 2', 'Boolean',
     ['callsite[C08] Convert requires newType == variants.String && (value == parameters[0] || value == parameters[1])',
      'callsite[C08] Contains requires arg0 == str.value.(string) && arg1 == substr.value.(string)'])

# type-preserving absolute value
emit('absFunctionCalculator', 'len(parameters) == 1', None,
     ['ensures[C08] err == nil && parameters[0].typ == variants.Integer ==> result.typ == variants.Integer &&',
      '    result.value.(int) == (parameters[0].value.(int) < 0 ? wrap64(0 - parameters[0].value.(int)) : parameters[0].value.(int))',
      'ensures[C08] err == nil && parameters[0].typ == variants.Long ==> result.typ == variants.Long &&',
      '    result.value.(int64) == (parameters[0].value.(int64) < 0 ? wrap64(0 - parameters[0].value.(int64)) : parameters[0].value.(int64))',
      'ensures[C08] err == nil && parameters[0].typ == variants.Float ==> result.typ == variants.Float && result.value == box(fabs(parameters[0].value.(float32)))',
      'ensures[C08] err == nil && parameters[0].typ == variants.Double ==> result.typ == variants.Double && result.value == box(fabs(parameters[0].value.(float64)))',
      'ensures[C08] err == nil && parameters[0].typ != variants.Integer && parameters[0].typ != variants.Long && parameters[0].typ != variants.Float ==> result.typ == variants.Double',
      'ensures[C08] err == nil ==> fresh(result)'],
     doc='"Abs (type-preserving for numeric arguments)"')

# folds over all arguments
for fn, op in [('min', 'More'), ('max', 'Less')]:
    emit(fn + 'FunctionCalculator', 'len(parameters) >= 2', None,
         ['ensures[C08] err == nil ==> (exists k int :: 0 <= k && k < len(parameters) && result == parameters[k])',
          # "an inapplicable argument yields an error - never ... a silently substituted value": a Null cannot be ordered
          'ensures[C08] err == nil ==> (forall j int :: 0 <= j && j < len(parameters) ==> parameters[j].typ != variants.Null)',
          'callsite[C08] %s requires value1 == result && value2 == parameters[i] && 1 <= i && i < len(parameters)' % op,
          'loop 0',
          '  invariant 1 <= i && i <= paramCount && paramCount == len(parameters) && vinv(result)',
          '  invariant exists k int :: 0 <= k && k < len(parameters) && result == parameters[k]',
          '  invariant i == 1 ==> result == parameters[0]',
          '  invariant i >= 2 ==> (forall j int :: 0 <= j && j < i ==> parameters[j].typ != variants.Null)',
          '  decreases paramCount - i'],
         doc='"%s ... over all arguments": every argument is compared, in order, with the running result' % fn.capitalize())
emit('sumFunctionCalculator', 'len(parameters) >= 2', None,
     ['callsite[C08] Add requires value1 == result && value2 == parameters[i] && 1 <= i && i < len(parameters)',
      'loop 0',
      '  invariant 1 <= i && i <= paramCount && paramCount == len(parameters) && vinv(result)',
      '  decreases paramCount - i'],
     doc='"Sum over all arguments": every argument is added, in order, to the running result')

text = '\n'.join(out) + '\n'
p = '/repo/calculator/functions/contracts_verif.go'
s = open(p).read()
B = '// ==== GENERATED by /verif/tools/gen_function_contracts.py - BEGIN ====\n'
E = '// ==== GENERATED by /verif/tools/gen_function_contracts.py - END ====\n'
if B in s:
    s = s[:s.index(B)] + B + text + s[s.index(E):]
else:
    s = s.rstrip('\n') + '\n\n' + B + text + E
open(p, 'w').write(s)
